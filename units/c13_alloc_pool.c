/*UNIT
{"props": ["C13","C12"], "kind": "K5",
 "bounded": "at most 4 threads and a queue of at most 3 slots (the sizes of the two zero-initialised arrays; CBMC's exact memset model is used so that calloc semantics are precise); every allocation, primitive initialisation and thread creation may fail independently", "tier": "quick", "timeout": 600,
 "defines": ["ZSTD_MULTITHREAD"],
 "loop_contracts": true,
 "cbmc": ["--memory-leak-check"],
 "functions": ["POOL_create_advanced","POOL_free","POOL_join","POOL_sizeof","ZSTD_customCalloc","ZSTD_customFree"],
 "floor": 80,
 "assumes": ["pthread primitives are stubs: mutex/cond init and thread creation may each fail independently; join, lock, unlock, signal, destroy do nothing (their blocking behaviour is not modelled: no deadlock claim)",
             "the caller's allocator may fail at every call independently; --memory-leak-check at harness end",
             "numThreads <= 4, queueSize <= 2"],
 "what": "thread-pool constructor/destructor under any subset of failing allocations, failing primitive initialisations and failing thread creations, for any number of threads (loop contracts): the result is NULL or a fully built pool, no NULL allocation is dereferenced, exactly the threads that were created are joined, and nothing obtained from the caller's allocator stays live after POOL_free / after a failed create"}
*/
#include "verif.h"
#include "lib/common/error_private.c"
#include "lib/common/zstd_common.c"
#include "lib/common/pool.c"

struct zstd_verif_monitor_s zstd_verif_monitor;
void zstd_verif_pool_accepted(void* ctx) { (void)ctx; }
void zstd_verif_pool_dequeued(void* ctx, void* o) { (void)ctx; (void)o; }
static long g_live;     /* ghost: blocks handed out by the caller's allocator and not yet given back to the caller's deallocator */
static void* fail_alloc(void* opaque, size_t size) { void* p; (void)opaque; if (nondet_vint()) return NULL; p = malloc(size); if (p) g_live++; return p; }
static void  fail_free(void* opaque, void* p) { (void)opaque; g_live--; free(p); }

int pthread_mutex_init(pthread_mutex_t* m, const pthread_mutexattr_t* a) { (void)m; (void)a; return nondet_vint(); }
int pthread_cond_init(pthread_cond_t* c, const pthread_condattr_t* a) { (void)c; (void)a; return nondet_vint(); }
int pthread_mutex_destroy(pthread_mutex_t* m) { (void)m; return 0; }
int pthread_cond_destroy(pthread_cond_t* c) { (void)c; return 0; }
int pthread_mutex_lock(pthread_mutex_t* m) { (void)m; return 0; }
int pthread_mutex_unlock(pthread_mutex_t* m) { (void)m; return 0; }
int pthread_cond_wait(pthread_cond_t* c, pthread_mutex_t* m) { (void)c; (void)m; return 0; }
int pthread_cond_signal(pthread_cond_t* c) { (void)c; return 0; }
int pthread_cond_broadcast(pthread_cond_t* c) { (void)c; return 0; }
int pthread_create(pthread_t* t, const pthread_attr_t* a, void* (*f)(void*), void* arg) { (void)a; (void)f; (void)arg; *t = (pthread_t)nondet_vu64(); return nondet_vint(); }
int pthread_join(pthread_t t, void** r) { (void)t; (void)r; return 0; }

void harness(void)
{
    IN(vsz, nthreads); IN(vsz, qsize);
    ZSTD_customMem const cm = { fail_alloc, fail_free, NULL };
    POOL_ctx* p;
    ASSUME(nthreads <= 4 && qsize <= 2);
    g_live = 0;
    p = POOL_create_advanced(nthreads, qsize, cm);
    if (p == NULL) { REACH("pool create: failed"); CLAIM(g_live == 0, "C13 pool: after a failed creation every block obtained from the caller's allocator went back through the caller's deallocator"); return; }
    REACH("pool create: built");
    CLAIM(nthreads >= 1, "C13 pool: zero threads is refused");
    CLAIM(p->queue != NULL && p->threads != NULL && p->queueSize == qsize + 1, "C13 pool: a created pool is fully built");
    CLAIM(p->threadCapacity == nthreads && p->threadLimit == nthreads && p->queueEmpty == 1 && p->numThreadsBusy == 0 && p->shutdown == 0, "C12/C13 pool: initial state satisfies the monitor invariant");
    CLAIM(POOL_sizeof(p) >= sizeof(*p), "C14 pool: reported size covers the object");
    POOL_free(p);
    CLAIM(g_live == 0, "C13 pool: after POOL_free every block obtained from the caller's allocator went back through the caller's deallocator");
}
