/*UNIT
{
 "props": [
  "C09",
  "C10",
  "C06",
  "C03"
 ],
 "kind": "K2",
 "tier": "thorough",
 "timeout": 1800, "mem_gb": 30,
 "split": {
  "define": "ONLY_STAGE",
  "values": {
   "hdr": 1,
   "skiphdr": 6
  }
 },
 "defines": [
  "ZSTD_DECODER_INTERNAL_BUFFER=64"
 ],
 "extra_src": [
  "stubs/xxh_stub.c",
  "stubs/mem_ranges.c"
 ],
 "remove_bodies": [
  "ZSTD_decompressBlock_internal"
 ],
 "functions": [
  "ZSTD_decompressContinue",
  "ZSTD_nextSrcSizeToDecompressWithInputSize",
  "ZSTD_decodeFrameHeader",
  "ZSTD_copyRawBlock",
  "ZSTD_setRleBlock",
  "ZSTD_checkContinuity",
  "ZSTD_getcBlockSize"
 ],
 "floor": 200,
 "assumes": [
  "same harness and assumptions as c09_decompress_continue; the two stages that stage header bytes inside the context at a symbolic offset (frame header, skippable header) need 15+ minutes each"
 ],
 "what": "c09_decompress_continue for the stages ZSTDds_decodeFrameHeader and ZSTDds_decodeSkippableHeader",
 "cbmc": [
  "--sat-solver",
  "cadical"
 ]
}
*/
#include "c09_decompress_continue.c"
