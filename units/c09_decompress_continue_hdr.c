/*UNIT
{
 "props": [
  "C09",
  "C10",
  "C06",
  "C03"
 ],
 "kind": "K2",
 "tier": "experimental",
 "timeout": 2400,
 "mem_gb": 30,
 "split": {
  "define": "ONLY_STAGE",
  "values": {
   "skiphdr": 6
  }
 },
 "defines": [
  "ZSTD_DECODER_INTERNAL_BUFFER=64"
 ],
 "extra_src": [
  "stubs/xxh_stub.c",
  "stubs/mem_ranges.c"
 ],
 "remove_bodies": [
  "ZSTD_decompressBlock_internal"
 ],
 "functions": [
  "ZSTD_decompressContinue",
  "ZSTD_nextSrcSizeToDecompressWithInputSize",
  "ZSTD_decodeFrameHeader",
  "ZSTD_copyRawBlock",
  "ZSTD_setRleBlock",
  "ZSTD_checkContinuity",
  "ZSTD_getcBlockSize"
 ],
 "floor": 200,
 "assumes": [
  "same harness and assumptions as c09_decompress_continue; the skippable-header stage stages header bytes inside the context at a symbolic offset and needs about 15 minutes (the frame-header stage is covered per header size by the quick unit c09_decompress_continue_hdrsizes)"
 ],
 "what": "c09_decompress_continue for the stage ZSTDds_decodeSkippableHeader",
 "cbmc": [
  "--sat-solver",
  "cadical"
 ]
}
*/
#include "c09_decompress_continue.c"
