/*UNIT
{"props": ["C08","C06"], "kind": "K1", "tier": "quick", "timeout": 600,
 "extra_src": ["stubs/mem_ranges.c"],
 "replace": ["ZSTD_buildSeqStore", "ZSTD_copyBlockSequences", "ZSTD_entropyCompressSeqStore", "ZSTD_isRLE"],
 "functions": ["ZSTD_compressBlock_internal", "ZSTD_blockState_confirmRepcodesAndEntropyTables"],
 "floor": 60,
 "assumes": ["ZSTD_buildSeqStore, ZSTD_entropyCompressSeqStore, ZSTD_isRLE, ZSTD_copyBlockSequences replaced by ASSUMED contracts: ranges asserted at the call; the entropy stage writes only dst and the NEXT block state's tables and returns an error or n <= dstCapacity; the match finder's effects on the context are abstracted away",
             "caller fact (asserted by unit c06_frame_chunk at the call): in frame mode the block compressor gets at least 3 bytes of output",
             "sequence-collection mode (no output is produced) is outside the claim on the repeat mode"],
 "what": "block compressor epilogue, every outcome (not compressible, RLE, compressed; first or later block): the result is an error or a size <= dstCapacity, the single RLE byte is written inside dst, and after ANY block that did not fail the offset-code table inherited from a dictionary is no longer marked 'valid without check' - a dictionary's table is trusted for the first block only, because later blocks may need offset codes it gives no probability to (otherwise the encoder emits an unencodable symbol)"}
*/
#include "verif.h"
#include "lib/compress/zstd_compress_internal.h"

static size_t ZSTD_buildSeqStore(ZSTD_CCtx* zc, const void* src, size_t srcSize)
__CPROVER_requires(zc != NULL && (srcSize == 0 || __CPROVER_r_ok(src, srcSize)))
__CPROVER_assigns()
__CPROVER_ensures(ZSTD_isError(__CPROVER_return_value) || __CPROVER_return_value == 0 /* ZSTDbss_compress */ || __CPROVER_return_value == 1 /* ZSTDbss_noCompress */)
;
static size_t ZSTD_copyBlockSequences(SeqCollector* seqCollector, const seqStore_t* seqStore, const U32 prevRepcodes[ZSTD_REP_NUM])
__CPROVER_requires(seqCollector != NULL && seqStore != NULL && __CPROVER_r_ok(prevRepcodes, ZSTD_REP_NUM * sizeof(U32)))
__CPROVER_assigns()
;
MEM_STATIC size_t ZSTD_entropyCompressSeqStore(const seqStore_t* seqStorePtr, const ZSTD_entropyCTables_t* prevEntropy, ZSTD_entropyCTables_t* nextEntropy,
                                               const ZSTD_CCtx_params* cctxParams, void* dst, size_t dstCapacity, size_t srcSize,
                                               void* entropyWorkspace, size_t entropyWkspSize, int bmi2)
__CPROVER_requires(seqStorePtr != NULL && cctxParams != NULL)
__CPROVER_requires(__CPROVER_r_ok(prevEntropy, sizeof(*prevEntropy)) && __CPROVER_w_ok(nextEntropy, sizeof(*nextEntropy)) && (const void*)prevEntropy != (const void*)nextEntropy)
__CPROVER_requires(dstCapacity == 0 || __CPROVER_w_ok(dst, dstCapacity))
__CPROVER_assigns(*nextEntropy, __CPROVER_object_whole(dst))
__CPROVER_ensures(ZSTD_isError(__CPROVER_return_value) || __CPROVER_return_value <= dstCapacity)
;
static int ZSTD_isRLE(const BYTE* src, size_t length)
__CPROVER_requires(length >= 1 && __CPROVER_r_ok(src, length))
__CPROVER_assigns()
__CPROVER_ensures(__CPROVER_return_value == 0 || __CPROVER_return_value == 1)
;
#include "lib/common/error_private.c"
#include "lib/common/zstd_common.c"
#include "lib/compress/zstd_compress.c"

void harness(void)
{
    static ZSTD_CCtx cobj;
    static ZSTD_compressedBlockState_t bsA, bsB;
    ZSTD_CCtx* const c = &cobj;
    IN(vsz, n); IN(vsz, cap); IN(vu32, frame); IN(vint, first); IN(vint, modeA); IN(vint, modeB); IN(vint, collect);
    BYTE* src; BYTE* dst; size_t r;
    ASSUME(n >= 1 && n <= ZSTD_BLOCKSIZE_MAX && cap <= ((size_t)1 << 32));
    ASSUME(frame <= 1 && (first == 0 || first == 1));
    ASSUME(!frame || cap >= MIN_CBLOCK_SIZE + 1);                          /* ZSTD_compress_frameChunk checks dstCapacity >= 6 and passes dstCapacity - 3 */
    ASSUME(modeA >= FSE_repeat_none && modeA <= FSE_repeat_valid && modeB >= FSE_repeat_none && modeB <= FSE_repeat_valid);
    ASSUME(collect == 0);
    src = (BYTE*)malloc(n); dst = (BYTE*)malloc(cap); ASSUME(src && dst);
    c->blockState.prevCBlock = &bsA; c->blockState.nextCBlock = &bsB;
    bsA.entropy.fse.offcode_repeatMode = (FSE_repeat)modeA; bsB.entropy.fse.offcode_repeatMode = (FSE_repeat)modeB;
    c->isFirstBlock = first; c->seqCollector.collectSequences = collect;
    c->tmpWorkspace = NULL; c->tmpWkspSize = 0;

    r = ZSTD_compressBlock_internal(c, dst, cap, src, n, frame);
    if (ZSTD_isError(r)) { REACH("block: error"); return; }
    REACH("block: done");
    CLAIM(r <= cap, "C06 block: the block compressor returns an error or a size within the capacity");
    CLAIM((c->blockState.prevCBlock == &bsA && c->blockState.nextCBlock == &bsB) || (c->blockState.prevCBlock == &bsB && c->blockState.nextCBlock == &bsA),
          "C08 block: the two block states are swapped, never lost");
    CLAIM(c->blockState.prevCBlock->entropy.fse.offcode_repeatMode != FSE_repeat_valid,
          "C08 block: after any block that did not fail, an offset-code table inherited from a dictionary is no longer 'valid without check'");
    if (r == 0) REACH("block: not compressible");
    if (r == 1) REACH("block: rle (or a 1-byte result of the entropy stage)");
    if (r > 1) { REACH("block: compressed"); CLAIM(c->blockState.prevCBlock == &bsB, "C08 block: a compressed block confirms the new tables"); }
}
