/*UNIT
{"props": ["C04","C05","C09"], "kind": "K2", "tier": "quick", "timeout": 600, "replay": true,
 "functions": ["ZSTD_getFrameHeader_advanced","ZSTD_frameHeaderSize_internal"],
 "floor": 40,
 "assumes": ["the specification function in the harness is transcribed from doc/zstd_compression_format.md (Frame_Header): it is the reference, the code is what is checked"],
 "what": "frame header decoder against the FORMAT SPECIFICATION on arbitrary header bytes (all 2^144 values of 18 bytes, both formats): the decoder accepts exactly the headers the format allows (reserved bit clear, window within the decoder's limit) and every decoded field - header size, window size incl. mantissa, block size limit, dictionary ID, content size incl. the +256 rule, checksum flag - equals the value the specification gives; features the bundled compressor never emits (non-zero window mantissa, 8-byte content size, every dictID width) are covered"}
*/
#include "verif.h"
#include "lib/common/zstd_internal.h"
#include "lib/decompress/zstd_decompress_internal.h"
#include "lib/common/error_private.c"
#include "lib/common/zstd_common.c"
#include "lib/decompress/zstd_ddict.c"
#include "lib/decompress/zstd_decompress.c"

static unsigned long long le(const vu8* p, unsigned nb)
{
    unsigned long long v = 0;
    if (nb > 0) v |= (unsigned long long)p[0];
    if (nb > 1) v |= (unsigned long long)p[1] << 8;
    if (nb > 2) v |= (unsigned long long)p[2] << 16;
    if (nb > 3) v |= (unsigned long long)p[3] << 24;
    if (nb > 4) v |= (unsigned long long)p[4] << 32;
    if (nb > 5) v |= (unsigned long long)p[5] << 40;
    if (nb > 6) v |= (unsigned long long)p[6] << 48;
    if (nb > 7) v |= (unsigned long long)p[7] << 56;
    return v;
}

void harness(void)
{
    IN_BYTES(h, 18);
    IN(vint, format);
    ZSTD_frameHeader zfh; size_t r;
    ASSUME(format == ZSTD_f_zstd1 || format == ZSTD_f_zstd1_magicless);
    /* a regular frame: with magic, the magic number of the format; skippable frames are unit c03_frame_header_any */
    if (format == ZSTD_f_zstd1) ASSUME(h[0] == 0x28 && h[1] == 0xB5 && h[2] == 0x2F && h[3] == 0xFD);

    r = ZSTD_getFrameHeader_advanced(&zfh, h, 18, (ZSTD_format_e)format);
    {   /* ---- specification (doc/zstd_compression_format.md, "Frame_Header") ---- */
        unsigned const m = (format == ZSTD_f_zstd1) ? 4 : 0;              /* Magic_Number: 4 bytes, absent in the magicless variant */
        unsigned const fhd = h[m];                                        /* Frame_Header_Descriptor */
        unsigned const fcsFlag = fhd >> 6, single = (fhd >> 5) & 1, reserved = (fhd >> 3) & 1, checksum = (fhd >> 2) & 1, didFlag = fhd & 3;
        unsigned const didSize = didFlag == 0 ? 0 : didFlag == 1 ? 1 : didFlag == 2 ? 2 : 4;
        unsigned const fcsSize = fcsFlag == 0 ? (single ? 1 : 0) : fcsFlag == 1 ? 2 : fcsFlag == 2 ? 4 : 8;
        unsigned const wdSize = single ? 0 : 1;
        unsigned const hsize = m + 1 + wdSize + didSize + fcsSize;
        unsigned const wd = h[m + 1];                                     /* Window_Descriptor (when present) */
        unsigned const exponent = wd >> 3, mantissa = wd & 7;
        unsigned long long const windowBase = 1ULL << (10 + exponent);
        unsigned long long const windowAdd = (windowBase / 8) * mantissa;
        unsigned long long const dictID = le(h + m + 1 + wdSize, didSize);
        unsigned long long fcs = le(h + m + 1 + wdSize + didSize, fcsSize);
        unsigned long long window;
        if (fcsSize == 2) fcs += 256;
        if (fcsSize == 0) fcs = ZSTD_CONTENTSIZE_UNKNOWN;
        window = single ? fcs : windowBase + windowAdd;

        if (reserved) { REACH("hdr-spec: reserved bit"); CLAIM(ZSTD_isError(r), "C04 hdr-spec: a header with the reserved bit set is refused"); return; }
        if (!single && 10 + exponent > ZSTD_WINDOWLOG_MAX) { REACH("hdr-spec: window too large"); CLAIM(ZSTD_isError(r), "C04 hdr-spec: a window beyond the decoder's limit is refused, not misread"); return; }
        REACH("hdr-spec: valid header");
        CLAIM(r == 0, "C04 hdr-spec: every header the format allows (within the window limit) is accepted");
        CLAIM(zfh.frameType == ZSTD_frame && zfh.headerSize == hsize, "C04 hdr-spec: header size as specified");
        CLAIM(zfh.windowSize == window, "C04 hdr-spec: window size = 2^(10+exponent) + (2^(10+exponent)/8)*mantissa, or the content size for single-segment frames");
        CLAIM(zfh.blockSizeMax == (window < ZSTD_BLOCKSIZE_MAX ? window : ZSTD_BLOCKSIZE_MAX), "C04 hdr-spec: block size limit = min(window, 128 KB)");
        CLAIM(zfh.dictID == dictID, "C04/C08 hdr-spec: dictionary ID read little-endian from the specified width");
        CLAIM(zfh.frameContentSize == fcs, "C04/C09 hdr-spec: content size as specified (2-byte form is offset by 256, absent = unknown)");
        CLAIM(zfh.checksumFlag == checksum, "C04/C09 hdr-spec: checksum flag as specified");
        if (mantissa && !single) REACH("hdr-spec: non-zero window mantissa");
        if (fcsSize == 8) REACH("hdr-spec: 8-byte content size");
    }
}
