/*UNIT
{"props": ["C05","C09","C08","C10"], "kind": "K2", "tier": "quick", "timeout": 300,
 "functions": ["ZSTD_writeFrameHeader","ZSTD_getFrameHeader_advanced","ZSTD_frameHeaderSize_internal"],
 "floor": 100, "replay": true,
 "what": "frame-header writer/reader inverse lemma over all parameters, all 64-bit pledged sizes, all 32-bit dictIDs, both formats; truthful fields; reserved bit zero; no proper prefix of a written header is complete"}
*/
#include "verif.h"
#include "lib/compress/zstd_compress.c"
#include "lib/decompress/zstd_decompress.c"

void harness(void)
{
    ZSTD_CCtx_params params;            /* nondeterministic content */
    IN(vu32, windowLog);
    IN(vint, contentSizeFlag);
    IN(vint, checksumFlag);
    IN(vint, noDictIDFlag);
    IN(vu32, format);
    IN(vu64, pledged);
    IN(vu32, dictID);
    IN(vsz,  cap);
    IN(vsz,  k);
    BYTE* dst;
    size_t hs;
    ZSTD_frameHeader zfh;
    size_t r;

    ASSUME(windowLog >= ZSTD_WINDOWLOG_ABSOLUTEMIN && windowLog <= ZSTD_WINDOWLOG_MAX);
    ASSUME(format == ZSTD_f_zstd1 || format == ZSTD_f_zstd1_magicless);
    /* the compressor never asks for a content-size field with an unknown size
     * (zstd's own assert in the writer; ZSTD_compressBegin_internal clears the flag) */
    ASSUME(!(contentSizeFlag && pledged == ZSTD_CONTENTSIZE_UNKNOWN));
    ASSUME(cap <= 64);
    params.cParams.windowLog = windowLog;
    params.fParams.contentSizeFlag = contentSizeFlag;
    params.fParams.checksumFlag = checksumFlag;
    params.fParams.noDictIDFlag = noDictIDFlag;
    params.format = (ZSTD_format_e)format;

    dst = (BYTE*)malloc(cap);
    ASSUME(dst != NULL);
    hs = ZSTD_writeFrameHeader(dst, cap, &params, pledged, dictID);

    if (ZSTD_isError(hs)) {
        REACH("framehdr: too-small capacity reported as error");
        CLAIM(cap < ZSTD_FRAMEHEADERSIZE_MAX, "C06 framehdr: error only when capacity < 18");
        return;
    }
    REACH("framehdr: header written");
    CLAIM(hs <= cap, "C06 framehdr: header size <= capacity");
    CLAIM(hs >= (format == ZSTD_f_zstd1 ? 6u : 2u), "C05 framehdr: at least magic+descriptor+one field");
    CLAIM(hs <= ZSTD_FRAMEHEADERSIZE_MAX, "C05 framehdr: header size <= 18");

    /* the reader accepts exactly what was written and reports the truth */
    r = ZSTD_getFrameHeader_advanced(&zfh, dst, hs, (ZSTD_format_e)format);
    CLAIM(r == 0, "C05 framehdr: reader accepts the written header");
    CLAIM(zfh.frameType == ZSTD_frame, "C05 framehdr: frame type");
    CLAIM(zfh.headerSize == hs, "C05 framehdr: headerSize equals bytes written");
    CLAIM(ZSTD_frameHeaderSize_internal(dst, hs, (ZSTD_format_e)format) == hs, "C05 framehdr: frameHeaderSize equals bytes written");
    if (contentSizeFlag) {
        REACH("framehdr: content size present");
        CLAIM(zfh.frameContentSize == pledged, "C05 framehdr: content size field equals pledged size");
    } else {
        CLAIM(zfh.frameContentSize == ZSTD_CONTENTSIZE_UNKNOWN, "C05 framehdr: no content size when not requested");
    }
    CLAIM(zfh.checksumFlag == (unsigned)(checksumFlag > 0), "C05 framehdr: checksum flag truthful");
    CLAIM(zfh.dictID == (noDictIDFlag ? 0 : dictID), "C05/C08 framehdr: dictID recorded unless noDictIDFlag");
    /* declared window covers what the compressor will use: either 2^windowLog or the whole content */
    CLAIM(zfh.windowSize == (1ULL << windowLog) || (contentSizeFlag && zfh.windowSize == pledged && pledged <= (1ULL << windowLog)),
          "C05 framehdr: declared window is 2^windowLog, or the content size in single-segment mode");
    CLAIM(zfh.blockSizeMax == (zfh.windowSize < ZSTD_BLOCKSIZE_MAX ? zfh.windowSize : ZSTD_BLOCKSIZE_MAX), "C05 framehdr: blockSizeMax = min(window,128K)");
    {   BYTE const fhd = dst[format == ZSTD_f_zstd1 ? 4 : 0];
        CLAIM((fhd & 0x18) == 0, "C05 framehdr: reserved and unused descriptor bits are zero");
    }
    if (format == ZSTD_f_zstd1) {
        CLAIM(MEM_readLE32(dst) == ZSTD_MAGICNUMBER, "C05 framehdr: magic number");
    }
    /* dictID field width is minimal */
    {   BYTE const fhd = dst[format == ZSTD_f_zstd1 ? 4 : 0];
        unsigned const code = fhd & 3;
        unsigned const want = noDictIDFlag ? 0 : (dictID == 0 ? 0 : dictID < 256 ? 1 : dictID < 65536 ? 2 : 3);
        CLAIM(code == want, "C05 framehdr: dictID field width minimal");
    }

    /* C09: no proper prefix of a written header is reported complete */
    ASSUME(k < hs);
    {   ZSTD_frameHeader z2;
        size_t const r2 = ZSTD_getFrameHeader_advanced(&z2, dst, k, (ZSTD_format_e)format);
        REACH("framehdr: prefix probe");
        CLAIM(r2 != 0, "C09 framehdr: proper prefix of a header is never complete");
        CLAIM(ZSTD_isError(r2) || r2 > k, "C09 framehdr: a prefix asks for more bytes than it has");
        CLAIM(ZSTD_isError(r2) || r2 <= hs, "C10 framehdr: the hint never exceeds the real header size");
    }
}
