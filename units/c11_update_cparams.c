/*UNIT
{"props": ["C11","C05"], "kind": "K2", "tier": "quick", "timeout": 600,
 "defines": ["ZSTD_MULTITHREAD"],
 "replace_calls": {"ZSTD_getCParamsFromCCtxParams": "stub_getCParams"},
 "functions": ["ZSTDMT_updateCParams_whileCompressing"],
 "floor": 10,
 "assumes": ["calls of ZSTD_getCParamsFromCCtxParams are redirected to a stub returning ARBITRARY compression parameters (a superset of what the real selection can return; its range facts are unit c16_cparams_range)",
             "sequential obligation: the update runs on the caller thread between two jobs"],
 "what": "parameter update in the middle of a multithreaded frame: whatever parameters the new level selects, the window log of the running frame is unchanged, so later jobs cannot produce offsets beyond the window declared in the frame header; the other fields are taken from the new selection and the level is recorded"}
*/
#include "verif.h"
#include "lib/common/error_private.c"
#include "lib/common/zstd_common.c"
#include "lib/compress/zstd_compress_internal.h"
#include "lib/compress/zstdmt_compress.h"
#include "lib/compress/zstdmt_compress.c"

static ZSTD_compressionParameters g_sel;
ZSTD_compressionParameters stub_getCParams(const ZSTD_CCtx_params* CCtxParams, U64 srcSizeHint, size_t dictSize, ZSTD_cParamMode_e mode)
{
    __CPROVER_assert(CCtxParams != NULL, "C11 update: parameters given");
    (void)srcSizeHint; (void)dictSize; (void)mode;
    return g_sel;
}

void harness(void)
{
    static ZSTDMT_CCtx mt;
    static ZSTD_CCtx_params newp;
    IN(vu32, wlog); IN(vint, level); IN(vu32, a); IN(vu32, b); IN(vu32, c); IN(vu32, d); IN(vu32, e); IN(vu32, f); IN(vint, strat);
    g_sel.windowLog = a; g_sel.chainLog = b; g_sel.hashLog = c; g_sel.searchLog = d; g_sel.minMatch = e; g_sel.targetLength = f; g_sel.strategy = (ZSTD_strategy)strat;
    mt.params.cParams.windowLog = wlog;
    newp.compressionLevel = level;
    ZSTDMT_updateCParams_whileCompressing(&mt, &newp);
    REACH("update: done");
    CLAIM(mt.params.cParams.windowLog == wlog, "C11 update: the window log of the running frame is never changed by a mid-frame parameter update");
    CLAIM(mt.params.cParams.chainLog == b && mt.params.cParams.hashLog == c && mt.params.cParams.searchLog == d && mt.params.cParams.minMatch == e
          && mt.params.cParams.targetLength == f && mt.params.cParams.strategy == (ZSTD_strategy)strat, "C11 update: the other parameters come from the new selection");
    CLAIM(mt.params.compressionLevel == level, "C11 update: the new level is recorded for the next jobs");
}
