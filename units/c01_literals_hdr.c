/*UNIT
{"props": ["C01","C04"], "kind": "K2", "tier": "experimental", "timeout": 1800, "mem_gb": 30, "cbmc": ["--unwind", "260"],
 "split": {"define": "ONLY_MODE", "values": {"raw": 0, "rle": 1}},
 "defines": ["ZSTD_DECODER_INTERNAL_BUFFER=64"],
 "extra_src": ["stubs/mem_ranges.c"],
 "functions": ["ZSTD_noCompressLiterals", "ZSTD_compressRleLiteralsBlock", "ZSTD_decodeLiteralsBlock"],
 "floor": 100,
 "assumes": ["STATUS: experimental - ran out of 10 GB in the quick budget (writer and parser composed over one symbolic block buffer); run only when named with --unit", "content copies are abstracted (stubs/mem_ranges.c): the claim is about the literals-section HEADER (type, size format, sizes), the payload copy is libc's memcpy/memset",
             "the decoder context is an untyped heap object with the smallest internal literal buffer, as in c03_decode_literals; the block is followed by at least one more byte (the sequences section)"],
 "what": "literals section, writer and reader composed, for every literal count 0..128 KB: what the REAL raw / RLE literal writers emit is accepted by the REAL literals parser, which consumes exactly the bytes written and announces exactly the literal count written (all three header size formats: 1, 2 and 3 bytes); for raw literals referenced in place the literal pointer is the first payload byte"}
*/
#include "verif.h"
#include "lib/common/zstd_internal.h"
#include "lib/decompress/zstd_decompress_internal.h"
#include "lib/common/error_private.c"
#include "lib/common/zstd_common.c"
#undef FSE_isError
#undef HUF_isError
#include "lib/common/entropy_common.c"
#include "lib/common/fse_decompress.c"
#include "lib/decompress/zstd_decompress_block.c"
#include "lib/compress/zstd_compress_literals.h"
#include "lib/compress/zstd_compress_literals.c"

size_t HUF_decompress1X_usingDTable(void* dst, size_t maxDstSize, const void* cSrc, size_t cSrcSize, const HUF_DTable* DTable, int flags)
{ (void)dst; (void)maxDstSize; (void)cSrc; (void)cSrcSize; (void)DTable; (void)flags; __CPROVER_assert(0, "C01 literals: raw/RLE literals never reach a Huffman decoder"); return 0; }
size_t HUF_decompress4X_usingDTable(void* dst, size_t maxDstSize, const void* cSrc, size_t cSrcSize, const HUF_DTable* DTable, int flags)
{ return HUF_decompress1X_usingDTable(dst, maxDstSize, cSrc, cSrcSize, DTable, flags); }
size_t HUF_decompress1X1_DCtx_wksp(HUF_DTable* dctx, void* dst, size_t dstSize, const void* cSrc, size_t cSrcSize, void* workSpace, size_t wkspSize, int flags)
{ (void)dctx; (void)workSpace; (void)wkspSize; return HUF_decompress1X_usingDTable(dst, dstSize, cSrc, cSrcSize, NULL, flags); }
size_t HUF_decompress4X_hufOnly_wksp(HUF_DTable* dctx, void* dst, size_t dstSize, const void* cSrc, size_t cSrcSize, void* workSpace, size_t wkspSize, int flags)
{ (void)dctx; (void)workSpace; (void)wkspSize; return HUF_decompress1X_usingDTable(dst, dstSize, cSrc, cSrcSize, NULL, flags); }

void harness(void)
{
    IN(vsz, dsz); IN(vsz, n); IN(vsz, extra); IN(vsz, cap);
    ZSTD_DCtx* d; BYTE* lits; BYTE* blk; BYTE* dst; size_t w, r, flSize;
    ASSUME(dsz == sizeof(ZSTD_DCtx)); d = (ZSTD_DCtx*)malloc(dsz); ASSUME(d != NULL);
    ASSUME(n <= ZSTD_BLOCKSIZE_MAX && extra >= 1 && extra <= 64 && cap >= n && cap <= ((size_t)1 << 20));
#if ONLY_MODE == 1
    ASSUME(n >= 1);
#endif
    lits = (BYTE*)malloc(n); blk = (BYTE*)malloc(n + 4 + extra); dst = (BYTE*)malloc(cap); ASSUME(lits && blk && dst);
    d->isFrameDecompression = 1; d->fParams.blockSizeMax = ZSTD_BLOCKSIZE_MAX; d->litEntropy = 0;
    flSize = 1 + (n > 31) + (n > 4095);                                   /* format: 5-, 12- or 20-bit size field */
#if ONLY_MODE == 0
    w = ZSTD_noCompressLiterals(blk, n + 4, lits, n);
    CLAIM(!ZSTD_isError(w) && w == n + flSize, "C01 literals: raw literals take header + count bytes");
#else
    w = ZSTD_compressRleLiteralsBlock(blk, n + 4, lits, n);
    CLAIM(!ZSTD_isError(w) && w == flSize + 1, "C01 literals: RLE literals take header + one byte");
#endif
    r = ZSTD_decodeLiteralsBlock(d, blk, w + extra, dst, cap, not_streaming);
    REACH("literals: written and parsed");
    CLAIM(!ZSTD_isError(r), "C01 literals: what the literal writers emit is accepted by the literals parser");
    CLAIM(r == w, "C01 literals: the parser consumes exactly the bytes the writer produced");
    CLAIM(d->litSize == n, "C01 literals: the parser announces exactly the literal count that was written");
#if ONLY_MODE == 0
    if (d->litBufferLocation == ZSTD_not_in_dst && __CPROVER_same_object(d->litPtr, blk)) {
        REACH("literals: raw referenced in place");
        CLAIM(d->litPtr == blk + flSize, "C01 literals: raw literals referenced in place start at the first payload byte");
    }
#endif
    if (n > 4095) REACH("literals: 3-byte header");
    if (n <= 31) REACH("literals: 1-byte header");
}
