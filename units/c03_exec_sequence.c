/*UNIT
{
 "props": [
  "C03",
  "C06"
 ],
 "kind": "K2",
 "tier": "thorough",
 "timeout": 4500,
 "extra_src": [
  "stubs/mem_ranges.c"
 ],
 "cbmc": [
  "--sat-solver",
  "cadical"
 ],
 "functions": [
  "ZSTD_execSequence",
  "ZSTD_overlapCopy8"
 ],
 "floor": 60,
 "assumes": [
  "calls of ZSTD_wildcopy and ZSTD_copy16 are redirected to stubs (assumed contracts) that ASSERT the EXACT extent those helpers touch, transcribed from their code: copy16 reads and writes 16 bytes; wildcopy with non-overlapping or far-apart buffers touches 16 bytes if length <= 16, else 16 + (length-16 rounded up to 32); with an overlapping match closer than 16 bytes it touches max(8, length rounded up to 8) and requires source >= 8 bytes before destination; the destination extent becomes arbitrary (bytes are not modelled)",
  "ZSTD_execSequenceEnd (the slow path) is a stub here: it is unit c03_exec_sequence_end",
  "literal buffer with the over-read slack WILDCOPY_OVERLENGTH after litLimit that unit c03_decode_literals proves for every literal placement; lengths within the bounds unit c03_decode_sequence proves",
  "decoder buffer geometry as in c03_exec_sequence_end (one output object ending exactly at oend; dictionary segment a separate object)",
  "TOOL ARTEFACT excluded by description: CBMC 6.11 reports 'arithmetic overflow on signed -' for ANY negative difference of two pointers into the same object (reproduced on a 10-line example: p < q, d = p - q); the one such expression on this path, `match - prefixStart` (match lies before the prefix, both inside the output object), is therefore not demanded; its operands' validity is still checked"
 ],
 "what": "sequence execution, fast path, on an ARBITRARY sequence (any offset incl. 0 and SIZE_MAX; lengths within the decoder's bounds): the wild copies - which deliberately write up to 31 bytes past the end of the sequence and read up to 31 bytes past the end of the literals - stay inside the output object and inside the literal buffer plus its slack, because the fast path is only taken when the sequence ends at least WILDCOPY_OVERLENGTH before oend; match sources lie inside the history; offsets reaching before the start of the history are refused; short-offset matches go through the 8-byte spreading step with source >= 8 bytes behind destination",
 "replace_calls": {
  "ZSTD_wildcopy": "stub_wildcopy",
  "ZSTD_copy16": "stub_copy16",
  "ZSTD_execSequenceEnd": "stub_execEnd"
 },
 "defines": [
  "VERIF_MEM_HAVOC_SLICE"
 ],
 "split": {
  "define": "ONLY_OFF",
  "values": {
   "far": 0,
   "near": 1
  }
 },
 "exclude_descriptions": [
  "arithmetic overflow on signed - in match - prefixStart"
 ]
}
*/
#include "verif.h"
#include "lib/common/error_private.c"
#include "lib/common/zstd_common.c"
#undef FSE_isError
#undef HUF_isError
#include "lib/common/entropy_common.c"
#include "lib/common/fse_decompress.c"
#include "lib/decompress/zstd_decompress_block.c"

void stub_copy16(void* dst, const void* src)
{
    __CPROVER_assert(__CPROVER_w_ok(dst, 16), "C03 exec: the 16-byte literal copy writes inside the output object");
    __CPROVER_assert(__CPROVER_r_ok(src, 16), "C03 exec: the 16-byte literal copy reads inside the literal buffer or its slack");
    __CPROVER_havoc_slice(dst, 16);
}
void stub_wildcopy(void* dst, const void* src, ptrdiff_t length, ZSTD_overlap_e const ovtype)
{
    size_t extent;
    __CPROVER_assert(length >= 0, "C03 exec: wildcopy length is not negative");
    if (ovtype == ZSTD_overlap_src_before_dst) {
        __CPROVER_assert(__CPROVER_same_object(dst, src) && __CPROVER_POINTER_OFFSET(dst) >= __CPROVER_POINTER_OFFSET(src) + 8, "C03 exec: an overlapping wildcopy has its source at least 8 bytes before its destination");
        if (__CPROVER_POINTER_OFFSET(dst) - __CPROVER_POINTER_OFFSET(src) < WILDCOPY_VECLEN)
            extent = length <= 8 ? 8 : (((size_t)length + 7) & ~(size_t)7);
        else
            extent = length <= 16 ? 16 : 16 + ((((size_t)length - 16) + 31) & ~(size_t)31);
    } else {
        extent = length <= 16 ? 16 : 16 + ((((size_t)length - 16) + 31) & ~(size_t)31);
    }
    __CPROVER_assert(__CPROVER_w_ok(dst, extent), "C03 exec: everything a wildcopy writes (the length rounded up to its vector step) lies inside the output object");
    __CPROVER_assert(__CPROVER_r_ok(src, extent), "C03 exec: everything a wildcopy reads lies inside the history or inside the literal buffer plus its slack");
    __CPROVER_havoc_slice(dst, extent);
}
size_t stub_execEnd(BYTE* op, BYTE* const oend, seq_t sequence, const BYTE** litPtr, const BYTE* const litLimit,
                    const BYTE* const prefixStart, const BYTE* const virtualStart, const BYTE* const dictEnd)
{ (void)op; (void)oend; (void)litPtr; (void)litLimit; (void)prefixStart; (void)virtualStart; (void)dictEnd;
  zstd_verif_ghost.memmove_calls = 77;            /* marks: slow path taken */
  return nondet_vint() ? ERROR(corruption_detected) : sequence.litLength + sequence.matchLength; }

void harness(void)
{
    IN(vsz, So); IN(vsz, v); IN(vsz, p); IN(vsz, o); IN(vsz, ll); IN(vsz, ml); IN(vsz, off); IN(vsz, Sl); IN(vsz, lp);
    BYTE *out, *dict, *lit; const BYTE* litPtr; seq_t seq; size_t r;
    ASSUME(So >= WILDCOPY_OVERLENGTH && So <= ((size_t)1 << 30) && v <= p && p <= o && o <= So);
    ASSUME(Sl <= ((size_t)1 << 20) && lp <= Sl);
    out = (BYTE*)malloc(So); dict = (BYTE*)malloc(p - v); lit = (BYTE*)malloc(Sl + WILDCOPY_OVERLENGTH);    /* slack after litLimit */
    ASSUME(out && dict && lit);
    ASSUME(ll <= 0x1FFFF + 0x10000 && ml <= 0x1FFFF + 0x10000 + 3);
    ASSUME(ONLY_OFF == 0 ? off >= WILDCOPY_VECLEN : off < WILDCOPY_VECLEN);      /* one proof run per match-copy strategy */
    seq.litLength = ll; seq.matchLength = ml; seq.offset = off;
    litPtr = lit + lp;
    zstd_verif_ghost.memmove_calls = 0;
    r = ZSTD_execSequence(out + o, out + So, seq, &litPtr, lit + Sl, out + p, out + v, dict + (p - v));
    if (zstd_verif_ghost.memmove_calls == 77) { REACH("execSequence: handed to the slow path"); return; }
    if (ZSTD_isError(r)) { REACH("execSequence: refused"); return; }
    REACH("execSequence: executed on the fast path");
    CLAIM(r == ll + ml, "C03 exec: a successful sequence regenerates exactly litLength + matchLength bytes");
    CLAIM(ll + ml + WILDCOPY_OVERLENGTH <= So - o, "C06 exec: the fast path is only taken when the sequence ends at least WILDCOPY_OVERLENGTH before the end of the output");
    CLAIM(ll <= Sl - lp && litPtr == lit + lp + ll, "C03 exec: literals come from inside the literal buffer and the cursor advances by litLength");
    CLAIM(off <= (o + ll) - v, "C03 exec: an accepted offset reaches no further back than the start of the history (prefix + dictionary)");
}
