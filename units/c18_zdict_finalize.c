/*UNIT
{"props": ["C18"], "kind": "K2", "tier": "thorough", "timeout": 3600, "mem_gb": 30, "cbmc": ["--unwind", "4"],
 "extra_src": ["stubs/mem_sampled.c"],
 "replace_calls": {"ZDICT_analyzeEntropy": "stub_analyzeEntropy"},
 "functions": ["ZDICT_finalizeDictionary","ZDICT_getDictID","ZDICT_maxRep"],
 "floor": 60,
 "assumes": ["calls of ZDICT_analyzeEntropy redirected to a stub (assumed contract): ASSERTS its output range writable, havocs it, returns an error or n <= the room it was given; entropy-table quality is not addressed",
             "XXH64 uninterpreted; content copy abstracted (mem_sampled, first 16 bytes exact)",
             "trainers' cores (suffix sort, cover selection, optimisers), determinism and thread schedules are not covered by any contract here"],
 "what": "dictionary finalisation: for every capacity, content size, sample set and parameter vector the result is an error or a dictionary that fits the capacity, starts with the dictionary magic, carries a non-zero ID (the requested one, or a generated one >= 32768) that ZDICT_getDictID reads back, and has at least 8 bytes of content so every default repeat offset is valid"}
*/
#include "verif.h"
#include "lib/common/error_private.c"
#include "lib/common/zstd_common.c"
#include "lib/dictBuilder/zdict.c"

size_t stub_analyzeEntropy(void* dstBuffer, size_t maxDstSize, int compressionLevel,
                           const void* srcBuffer, const size_t* fileSizes, unsigned nbFiles,
                           const void* dictBuffer, size_t dictBufferSize, unsigned notificationLevel)
{
    (void)compressionLevel; (void)srcBuffer; (void)fileSizes; (void)nbFiles; (void)dictBuffer; (void)dictBufferSize; (void)notificationLevel;
    __CPROVER_assert(maxDstSize == 0 || __CPROVER_w_ok(dstBuffer, maxDstSize), "C18 finalize: the entropy analyser is given a writable range");
    if (nondet_vint()) return ERROR(dstSize_tooSmall);
    {   size_t const r = nondet_vsz(); __CPROVER_assume(r <= maxDstSize);
        if (maxDstSize) __CPROVER_havoc_slice(dstBuffer, maxDstSize);
        return r; }
}
unsigned long long ZSTD_XXH64(const void* p, size_t n, unsigned long long seed) { (void)p; (void)n; (void)seed; return nondet_vu64(); }

void harness(void)
{
    IN(vint, which);
    if (which == 0) {
        IN(vsz, cap); IN(vsz, contentSize); IN(vu32, nbSamples); IN(vu32, reqID); IN(vint, level);
        ZDICT_params_t params; BYTE* dict; BYTE* content; size_t r;
        ASSUME(cap <= ((size_t)1 << 32) && contentSize <= ((size_t)1 << 32));
        dict = (BYTE*)malloc(cap); content = (BYTE*)malloc(contentSize); ASSUME(dict && content);
        params.compressionLevel = level; params.notificationLevel = 0; params.dictID = reqID;
        r = ZDICT_finalizeDictionary(dict, cap, content, contentSize, NULL, NULL, nbSamples, params);
        if (ZDICT_isError(r)) { REACH("finalize: error"); return; }
        REACH("finalize: dictionary produced");
        CLAIM(r <= cap, "C18 finalize: the dictionary fits the given capacity");
        CLAIM(r >= 8 + 8 && cap >= ZDICT_DICTSIZE_MIN, "C18 finalize: header plus at least 8 bytes of content (all default repeat offsets valid)");
        CLAIM(MEM_readLE32(dict) == ZSTD_MAGIC_DICTIONARY, "C18 finalize: dictionary magic written");
        {   unsigned const id = ZDICT_getDictID(dict, r);
            CLAIM(id != 0, "C18 finalize: the dictionary carries a non-zero ID");
            CLAIM(reqID ? id == reqID : id >= 32768, "C18 finalize: the ID is the requested one, or a generated one outside the reserved range");
            CLAIM(id == MEM_readLE32(dict + 4), "C18 finalize: every ID query reads the same field");
        }
    }
}
