/*UNIT
{"props": ["C09","C10","C06","C03"], "kind": "K2", "tier": "quick", "timeout": 600,
 "split": {"define": "ONLY_STAGE", "values": {"hdrsize": 0, "blockhdr": 2, "block": 3, "lastblock": 4, "checksum": 5, "skiphdr": 6, "skip": 7}},
 "defines": ["ZSTD_DECODER_INTERNAL_BUFFER=64"],
 "extra_src": ["stubs/xxh_stub.c", "stubs/mem_ranges.c"],
 "functions": ["ZSTD_decompressContinue","ZSTD_nextSrcSizeToDecompressWithInputSize","ZSTD_decodeFrameHeader","ZSTD_copyRawBlock","ZSTD_setRleBlock","ZSTD_checkContinuity","ZSTD_getcBlockSize"],
 "floor": 200,
 "assumes": ["ZSTD_decompressBlock_internal replaced by a stub (assumed contract: asserts its input/output ranges, returns an error or n <= dstCapacity, no effect on the frame-level fields stage/expected/fParams/decodedSize/checksum state); its own 'error or n <= dstCapacity' is the subject of the block-decoder units, so the capacity claim below is made for raw and RLE blocks",
             "XXH64 uninterpreted; raw-block copy abstracted (mem_sampled)",
             "multi-DDict selection off (ddictSet == NULL): that path is unit c03_ddict_hashset",
             "frame parameters as ZSTD_getFrameHeader_advanced leaves them (blockSizeMax <= 128 KB)"],
 "what": "one call of the buffer-less decoder from ANY stage with arbitrary bytes: wrong input size is refused without a state change; result is an error or <= dstCapacity; the (stage, expected) pair after the call is the successor in the frame grammar (block header -> block(size) / next header / checksum / end), the size hint never exceeds the block size limit; at the last block success requires decoded size == declared content size; at the checksum stage success requires stored == computed unless verification is disabled"}
*/
#include "verif.h"
#include "lib/decompress/zstd_decompress_internal.h"
#include "lib/decompress/zstd_decompress_block.h"

#include "lib/common/error_private.c"
#include "lib/common/zstd_common.c"
/* zstd_internal.h (already included for the contract's types) maps these two names to ERR_isError for inlining;
 * entropy_common.c defines the real functions, so the mapping is dropped before it is included */
#undef FSE_isError
#undef HUF_isError
#include "lib/common/entropy_common.c"
#include "lib/common/fse_decompress.c"
#include "lib/decompress/zstd_ddict.c"
#include "lib/decompress/huf_decompress.c"
/* the real block decoder keeps its body under another name; the frame-level code below calls the stub */
#define ZSTD_decompressBlock_internal ZSTD_decompressBlock_internal_real
#include "lib/decompress/zstd_decompress_block.c"
#undef ZSTD_decompressBlock_internal
size_t ZSTD_decompressBlock_internal(ZSTD_DCtx* dctx, void* dst, size_t dstCapacity, const void* src, size_t srcSize, const streaming_operation streaming)
{
    (void)dctx; (void)streaming;
    __CPROVER_assert(dstCapacity == 0 || __CPROVER_w_ok(dst, dstCapacity), "C03 continue: the block decoder is given a writable output range");
    __CPROVER_assert(srcSize == 0 || __CPROVER_r_ok(src, srcSize), "C03 continue: the block decoder is given a readable input range");
    if (nondet_vint()) return ERROR(corruption_detected);
    {   size_t const r = nondet_vsz(); __CPROVER_assume(r <= dstCapacity); return r; }
}
#include "lib/decompress/zstd_decompress.c"

void harness(void)
{
    /* untyped byte object: the header staging buffer inside the context is written at a symbolic offset */
    IN(vsz, dsz);
    ZSTD_DCtx* d;
    IN(vint, stage); IN(vsz, expected); IN(vsz, n); IN(vsz, cap); IN(vint, bType); IN(vsz, rleSize); IN(vu32, blockSizeMax);
    IN(vu64, fcs); IN(vu32, checksumFlag); IN(vint, validate); IN(vu64, decoded); IN(vint, format); IN(vsz, headerSize); IN(vint, forceIgnore);
    BYTE* src; BYTE* dst; size_t r;
    ASSUME(dsz == sizeof(ZSTD_DCtx));
    d = (ZSTD_DCtx*)malloc(dsz); ASSUME(d != NULL);
    ASSUME(stage >= ZSTDds_getFrameHeaderSize && stage <= ZSTDds_skipFrame);
    ASSUME(stage == ONLY_STAGE);                                      /* one proof run per decoder stage */
    ASSUME(n <= ((size_t)1 << 33) && cap <= ((size_t)1 << 33));
    ASSUME(blockSizeMax <= ZSTD_BLOCKSIZE_MAX && checksumFlag <= 1 && (validate == 0 || validate == 1));
    ASSUME(format == ZSTD_f_zstd1 || format == ZSTD_f_zstd1_magicless);
    ASSUME(bType >= bt_raw && bType <= bt_reserved);
    src = (BYTE*)malloc(n); dst = (BYTE*)malloc(cap); ASSUME(src && dst);
    d->stage = (ZSTD_dStage)stage; d->expected = expected; d->bType = (blockType_e)bType; d->rleSize = rleSize;
    d->fParams.blockSizeMax = blockSizeMax; d->fParams.frameContentSize = fcs; d->fParams.checksumFlag = checksumFlag;
    d->validateChecksum = validate; d->decodedSize = decoded; d->format = (ZSTD_format_e)format; d->headerSize = headerSize;
#ifdef ONLY_HDR   /* proof runs of unit c09_decompress_continue_hdrsizes: format and total header size are constants (ONLY_HDR = format*32 + headerSize) */
    ASSUME(format == ONLY_HDR / 32 && headerSize == ONLY_HDR % 32 && n == (ONLY_HDR % 32) - ((ONLY_HDR / 32) == ZSTD_f_zstd1 ? 5u : 1u));
    d->format = (ZSTD_format_e)(ONLY_HDR / 32); d->headerSize = ONLY_HDR % 32;
#endif
    d->forceIgnoreChecksum = forceIgnore ? ZSTD_d_ignoreChecksum : ZSTD_d_validateChecksum;
    d->ddictSet = NULL; d->isFrameDecompression = 1;
    /* output continues where the previous call stopped (the other case is unit c02_check_continuity) */
    d->previousDstEnd = dst; d->prefixStart = dst; d->virtualStart = dst; d->dictEnd = dst;
    /* stage invariants established by the previous call (each is a postcondition proved below for the successor) */
    /* (expected == 0 in this stage is the terminal "frame complete" state: a further call there is outside the API contract, the code asserts srcSize >= 4) */
    if (stage == ZSTDds_getFrameHeaderSize) ASSUME(expected == (format == ZSTD_f_zstd1 ? 5u : 1u));
    if (stage == ZSTDds_decodeFrameHeader) ASSUME(headerSize >= expected && headerSize <= ZSTD_FRAMEHEADERSIZE_MAX && expected >= 1 && headerSize - expected == (format == ZSTD_f_zstd1 ? 5u : 1u));
    if (stage == ZSTDds_decodeBlockHeader) ASSUME(expected == ZSTD_blockHeaderSize);
    if (stage == ZSTDds_decompressBlock || stage == ZSTDds_decompressLastBlock) ASSUME(expected >= 1 && expected <= blockSizeMax && (bType != bt_rle || expected == 1));
    if (stage == ZSTDds_checkChecksum) ASSUME(expected == 4);
    if (stage == ZSTDds_decodeSkippableHeader) ASSUME(expected >= 1 && expected <= ZSTD_SKIPPABLEHEADERSIZE - ZSTD_FRAMEIDSIZE - 0 && format == ZSTD_f_zstd1 && expected == 3);

    {   ZSTD_dStage const s0 = d->stage; size_t const e0 = d->expected;
#ifdef ONLY_HDR
        r = ZSTD_decompressContinue(d, dst, cap, src, (ONLY_HDR % 32) - ((ONLY_HDR / 32) == ZSTD_f_zstd1 ? 5u : 1u));
#elif ONLY_STAGE == 6   /* skippable header: the 3 remaining header bytes; a constant size keeps the staging offset constant */
        ASSUME(n == 3);
        r = ZSTD_decompressContinue(d, dst, cap, src, 3);
        if (!ZSTD_isError(r)) { REACH("continue: skippable header staged"); CLAIM(d->stage == ZSTDds_skipFrame && r == 0, "C10 continue: after the skippable header the decoder skips the payload"); }
#else
        r = ZSTD_decompressContinue(d, dst, cap, src, n);
#endif
        /* the size the decoder asked for */
        {   size_t const want = ((s0 == ZSTDds_decompressBlock || s0 == ZSTDds_decompressLastBlock) && bType == bt_raw)
                              ? (n < 1 ? 1 : (n > e0 ? e0 : n)) : e0;
            if (n != want) {
#ifndef ONLY_HDR
                REACH("continue: wrong size");
#endif
                CLAIM(ZSTD_isError(r), "C09 continue: input of the wrong size is refused");
                CLAIM(d->stage == s0 && d->expected == e0 && d->decodedSize == decoded, "C09 continue: a refused call changes nothing");
                return;
            }
        }
        if (ZSTD_isError(r)) { REACH("continue: error"); return; }
        CLAIM(r <= cap, "C06 continue: bytes produced never exceed the destination capacity");
        CLAIM(d->expected <= (d->stage == ZSTDds_skipFrame ? 0xFFFFFFFFu : (ZSTD_BLOCKSIZE_MAX > ZSTD_FRAMEHEADERSIZE_MAX ? ZSTD_BLOCKSIZE_MAX : ZSTD_FRAMEHEADERSIZE_MAX)), "C10 continue: the size hint is bounded by the block size limit");
#ifndef ONLY_HDR        /* the other stages: not part of the per-header-size runs */
        if (s0 == ZSTDds_decodeBlockHeader) {
            REACH("continue: block header");
            if (d->stage == ZSTDds_decompressBlock || d->stage == ZSTDds_decompressLastBlock)
                CLAIM(d->expected <= blockSizeMax, "C03/C05 continue: a block larger than the frame's block size limit is refused");
            CLAIM((d->stage == ZSTDds_decompressBlock || d->stage == ZSTDds_decompressLastBlock) ? d->expected >= 1
                  : (d->stage == ZSTDds_decodeBlockHeader ? d->expected == ZSTD_blockHeaderSize
                  : (d->stage == ZSTDds_checkChecksum ? (d->expected == 4 && checksumFlag) : (d->stage == ZSTDds_getFrameHeaderSize && d->expected == 0 && !checksumFlag))),
                  "C10 continue: after a block header the decoder expects the block, the next header, the checksum or the end, as the frame grammar says");
            CLAIM(d->bType != bt_reserved, "C03 continue: reserved block type refused");
            if (d->stage == ZSTDds_checkChecksum || d->stage == ZSTDds_getFrameHeaderSize) {
                REACH("continue: empty last block ends the frame");
                CLAIM(fcs == ZSTD_CONTENTSIZE_UNKNOWN || d->decodedSize == fcs, "C09 continue: a frame with a declared content size that ends with an EMPTY last block ends successfully only if exactly that many bytes were regenerated");
            }
        }
        if (s0 == ZSTDds_decompressLastBlock && d->expected == 0 && d->stage != ZSTDds_decompressLastBlock) {
            REACH("continue: last block done");
            CLAIM(fcs == ZSTD_CONTENTSIZE_UNKNOWN || d->decodedSize == fcs, "C09 continue: a frame with a declared content size ends successfully only if exactly that many bytes were regenerated");
            CLAIM(checksumFlag ? (d->stage == ZSTDds_checkChecksum && d->expected == 4) : (d->stage == ZSTDds_getFrameHeaderSize && d->expected == 0),
                  "C10 continue: after the last block comes the checksum if the frame has one, otherwise the frame is complete");
        }
        if (s0 == ZSTDds_decompressBlock && d->stage == ZSTDds_decodeBlockHeader) { REACH("continue: block done"); CLAIM(d->expected == ZSTD_blockHeaderSize, "C10 continue: after a block the next block header"); }
        if ((s0 == ZSTDds_decompressBlock || s0 == ZSTDds_decompressLastBlock)) {
            CLAIM(d->decodedSize == decoded + r, "C09 continue: decoded size accounts for every regenerated byte");
            if (bType == bt_raw && d->stage == s0) { REACH("continue: raw block streamed"); CLAIM(d->expected == e0 - n && d->expected >= 1, "C10 continue: a partially fed raw block asks for exactly the rest"); }
        }
        if (s0 == ZSTDds_checkChecksum) {
            REACH("continue: checksum accepted");
            CLAIM(!validate || MEM_readLE32(src) == (U32)zstd_verif_ghost.xxh_last_digest, "C09 continue: the frame checksum is accepted only if it equals the computed one (unless verification is disabled)");
            CLAIM(d->stage == ZSTDds_getFrameHeaderSize && d->expected == 0, "C10 continue: after the checksum the frame is complete");
        }
#endif /* !ONLY_HDR */
#if ONLY_STAGE == 1     /* proof run of unit c09_decompress_continue_hdr */
        if (s0 == ZSTDds_decodeFrameHeader) {
            REACH("continue: frame header decoded");
            CLAIM(d->stage == ZSTDds_decodeBlockHeader && d->expected == ZSTD_blockHeaderSize, "C10 continue: after the frame header the first block header");
            CLAIM(d->validateChecksum == (d->fParams.checksumFlag && !forceIgnore), "C09 continue: checksum verification is on exactly when the frame has one and it is not disabled");
            CLAIM(d->fParams.blockSizeMax <= ZSTD_BLOCKSIZE_MAX, "C03 continue: block size limit bounded");
        }
#endif
    }
}
