/*UNIT
{"props": ["C03","C06"], "kind": "K1", "tier": "quick", "timeout": 300,
 "enforce": ["ZSTD_getcBlockSize"],
 "functions": ["ZSTD_getcBlockSize"],
 "floor": 15,
 "what": "block header parser on arbitrary bytes: reads only the 3 header bytes, returns an error (too short, reserved type) or a block size below 2^21 with consistent type / last-block / original-size fields (contracts/blockhdr.h enforced on the real body)"}
*/
#include "verif.h"
#include "lib/common/zstd_internal.h"
#include "blockhdr.h"
#include "lib/common/error_private.c"
#include "lib/common/zstd_common.c"
#undef FSE_isError
#undef HUF_isError
#include "lib/common/entropy_common.c"
#include "lib/common/fse_decompress.c"
#include "lib/decompress/zstd_decompress_block.c"
void harness(void)
{
    const void* src; size_t n; blockProperties_t* bp;
    size_t const r = ZSTD_getcBlockSize(src, n, bp);
    if (ZSTD_isError(r)) REACH("getcBlockSize: error"); else REACH("getcBlockSize: ok");
}
