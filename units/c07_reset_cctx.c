/*UNIT
{"props": ["C07","C09"], "kind": "K2", "tier": "quick", "timeout": 600, "cbmc": ["--unwind", "4"],
 "extra_src": ["stubs/xxh_stub.c", "stubs/mem_ranges.c"],
 "replace_calls": {"ZSTD_estimateCCtxSize_usingCCtxParams_internal": "stub_estimate", "ZSTD_cwksp_create": "stub_ws_create", "ZSTD_cwksp_free": "stub_ws_free",
                   "ZSTD_cwksp_reserve_object": "stub_reserve", "ZSTD_cwksp_reserve_aligned64": "stub_reserve", "ZSTD_cwksp_reserve_buffer": "stub_reserve_buffer",
                   "ZSTD_cwksp_clear": "stub_ws_clear", "ZSTD_cwksp_sizeof": "stub_ws_sizeof", "ZSTD_cwksp_check_wasteful": "stub_ws_wasteful",
                   "ZSTD_cwksp_bump_oversized_duration": "stub_ws_bump", "ZSTD_reset_matchState": "stub_reset_ms", "ZSTD_indexTooCloseToMax": "stub_tooclose"},
 "functions": ["ZSTD_resetCCtx_internal", "ZSTD_reset_compressedBlockState", "ZSTD_referenceExternalSequences"],
 "floor": 60,
 "assumes": ["workspace management (size estimate, create/free/clear, the reserve functions) and ZSTD_reset_matchState are redirected to stubs returning arbitrary sizes / fresh blocks of the requested size or NULL / an error or 0: the allocator itself is unit c14_cwksp, table clearing c15_*; what is checked here is the context's own frame-level state",
             "long-distance matching and external sequence producers off",
             "XXH64 uninterpreted (reset recorded in the ghost)"],
 "what": "start of every compression session, from ARBITRARY previous context content (any history: earlier frames, aborted frames, garbage): after a successful ZSTD_resetCCtx_internal every frame-level field the compressor later reads has a value that depends only on the parameters and the pledged size - consumed/produced counters zero, first-block flag set, stage init, no dictionary ID/size, pledged size recorded, checksum state reset, previous-block entropy state reset to 'no repeat' with the format's start repcodes, external sequence store empty, applied parameters = requested parameters, block size = min(max block size, window, pledged size)"}
*/
#include "verif.h"
#include "lib/compress/zstd_compress_internal.h"
#include "lib/common/error_private.c"
#include "lib/common/zstd_common.c"
#include "lib/compress/zstd_compress.c"
#include "lib/compress/zstd_ldm.c"

size_t stub_estimate(const ZSTD_compressionParameters* cParams, const ldmParams_t* ldmParams, const int isStatic, const ZSTD_paramSwitch_e useRowMatchFinder,
                     const size_t buffInSize, const size_t buffOutSize, const U64 pledgedSrcSize, int useSequenceProducer, size_t maxBlockSize)
{ (void)cParams; (void)ldmParams; (void)isStatic; (void)useRowMatchFinder; (void)buffInSize; (void)buffOutSize; (void)pledgedSrcSize; (void)useSequenceProducer; (void)maxBlockSize;
  if (nondet_vint()) return ERROR(memory_allocation); return nondet_vsz() & (((size_t)1 << 40) - 1); }
size_t stub_ws_create(ZSTD_cwksp* ws, size_t size, ZSTD_customMem customMem) { (void)ws; (void)size; (void)customMem; return nondet_vint() ? ERROR(memory_allocation) : 0; }
void stub_ws_free(ZSTD_cwksp* ws, ZSTD_customMem customMem) { (void)ws; (void)customMem; }
void* stub_reserve(ZSTD_cwksp* ws, size_t bytes) { (void)ws; if (bytes > ((size_t)1 << 32) || nondet_vint()) return NULL; return malloc(bytes); }
BYTE* stub_reserve_buffer(ZSTD_cwksp* ws, size_t bytes) { return (BYTE*)stub_reserve(ws, bytes); }
void stub_ws_clear(ZSTD_cwksp* ws) { (void)ws; }
size_t stub_ws_sizeof(const ZSTD_cwksp* ws) { (void)ws; return nondet_vsz(); }
int stub_ws_wasteful(ZSTD_cwksp* ws, size_t additionalNeededSpace) { (void)ws; (void)additionalNeededSpace; return nondet_vint() & 1; }
void stub_ws_bump(ZSTD_cwksp* ws, size_t additionalNeededSpace) { (void)ws; (void)additionalNeededSpace; }
size_t stub_reset_ms(ZSTD_matchState_t* ms, ZSTD_cwksp* ws, const ZSTD_compressionParameters* cParams, const ZSTD_paramSwitch_e useRowMatchFinder,
                     const ZSTD_compResetPolicy_e crp, const ZSTD_indexResetPolicy_e forceResetIndex, const ZSTD_resetTarget_e forWho)
{ (void)ms; (void)ws; (void)cParams; (void)useRowMatchFinder; (void)crp; (void)forceResetIndex; (void)forWho; return nondet_vint() ? ERROR(memory_allocation) : 0; }
int stub_tooclose(ZSTD_window_t w) { (void)w; return nondet_vint() & 1; }

void harness(void)
{
    static ZSTD_CCtx cobj;                       /* dfcc is not used: statics are zero here, so the previous content is made arbitrary explicitly below */
    static ZSTD_CCtx_params prm;
    static ZSTD_compressedBlockState_t bsA, bsB;
    ZSTD_CCtx* const c = &cobj;
    IN(vu64, pledged); IN(vsz, dictSize); IN(vint, crp); IN(vint, zbuff); IN(vu32, wlog); IN(vu32, minMatch); IN(vsz, maxBlock); IN(vint, csflag); IN(vint, inMode); IN(vint, outMode);
    size_t r;
    /* arbitrary history in every frame-level field */
    c->isFirstBlock = nondet_vint(); c->consumedSrcSize = nondet_vu64(); c->producedCSize = nondet_vu64(); c->pledgedSrcSizePlusOne = nondet_vu64();
    c->stage = (ZSTD_compressionStage_e)(nondet_vint() & 3); c->dictID = nondet_vu32(); c->dictContentSize = nondet_vsz(); c->blockSize = nondet_vsz();
    c->externSeqStore.seq = (rawSeq*)malloc(16); c->externSeqStore.size = nondet_vsz(); c->externSeqStore.capacity = nondet_vsz(); c->externSeqStore.pos = nondet_vsz(); c->externSeqStore.posInSequence = nondet_vsz();
    c->initialized = nondet_vint() & 1; c->staticSize = nondet_vsz();
    c->blockState.prevCBlock = &bsA; c->blockState.nextCBlock = &bsB;
    bsA.rep[0] = nondet_vu32(); bsA.rep[1] = nondet_vu32(); bsA.rep[2] = nondet_vu32();
    bsA.entropy.huf.repeatMode = (HUF_repeat)(nondet_vint() & 3); bsA.entropy.fse.offcode_repeatMode = (FSE_repeat)(nondet_vint() & 3);
    bsA.entropy.fse.matchlength_repeatMode = (FSE_repeat)(nondet_vint() & 3); bsA.entropy.fse.litlength_repeatMode = (FSE_repeat)(nondet_vint() & 3);
    zstd_verif_ghost.xxh_bytes = nondet_vu64();
    /* requested parameters: already resolved (no 'auto' switches), as ZSTD_compressBegin_internal passes them */
    ASSUME(wlog >= ZSTD_WINDOWLOG_MIN && wlog <= ZSTD_WINDOWLOG_MAX && minMatch >= 3 && minMatch <= 7);
    ASSUME(maxBlock >= ZSTD_BLOCKSIZE_MAX_MIN && maxBlock <= ZSTD_BLOCKSIZE_MAX);
    ASSUME(crp == ZSTDcrp_makeClean || crp == ZSTDcrp_leaveDirty); ASSUME(zbuff == ZSTDb_not_buffered || zbuff == ZSTDb_buffered);
    ASSUME((csflag == 0 || csflag == 1) && (inMode == ZSTD_bm_buffered || inMode == ZSTD_bm_stable) && (outMode == ZSTD_bm_buffered || outMode == ZSTD_bm_stable));
    prm.cParams.windowLog = wlog; prm.cParams.minMatch = minMatch; prm.maxBlockSize = maxBlock;
    prm.ldmParams.enableLdm = ZSTD_ps_disable; prm.useRowMatchFinder = ZSTD_ps_disable; prm.useBlockSplitter = ZSTD_ps_disable;
    prm.fParams.contentSizeFlag = csflag; prm.inBufferMode = (ZSTD_bufferMode_e)inMode; prm.outBufferMode = (ZSTD_bufferMode_e)outMode;
    prm.extSeqProdFunc = NULL;

    r = ZSTD_resetCCtx_internal(c, &prm, pledged, dictSize, (ZSTD_compResetPolicy_e)crp, (ZSTD_buffered_policy_e)zbuff);
    if (ZSTD_isError(r)) { REACH("reset: failed"); return; }
    REACH("reset: session started");
    {   size_t const windowSize = (((U64)1 << wlog) < pledged ? ((U64)1 << wlog) : pledged) < 1 ? 1 : (size_t)(((U64)1 << wlog) < pledged ? ((U64)1 << wlog) : pledged);
        CLAIM(c->consumedSrcSize == 0 && c->producedCSize == 0, "C07 reset: the consumed/produced counters of the previous session do not survive");
        CLAIM(c->isFirstBlock == 1 && c->stage == ZSTDcs_init, "C07 reset: first-block flag and stage are reinitialised");
        CLAIM(c->dictID == 0 && c->dictContentSize == 0, "C07/C08 reset: no dictionary identity is inherited");
        CLAIM(c->pledgedSrcSizePlusOne == pledged + 1, "C09 reset: the pledged size of THIS session is recorded");
        CLAIM(zstd_verif_ghost.xxh_bytes == 0, "C07/C09 reset: the checksum state restarts");
        ZSTD_compressedBlockState_t const* const pb = c->blockState.prevCBlock;      /* the old object, or a freshly reserved one when the workspace was rebuilt */
        CLAIM(pb != NULL && pb->rep[0] == repStartValue[0] && pb->rep[1] == repStartValue[1] && pb->rep[2] == repStartValue[2],
              "C07 reset: repcode history restarts from the format's start values");
        CLAIM(pb->entropy.huf.repeatMode == HUF_repeat_none && pb->entropy.fse.offcode_repeatMode == FSE_repeat_none
              && pb->entropy.fse.matchlength_repeatMode == FSE_repeat_none && pb->entropy.fse.litlength_repeatMode == FSE_repeat_none,
              "C07 reset: no entropy table of the previous session can be repeated");
        CLAIM(c->externSeqStore.seq == NULL && c->externSeqStore.size == 0 && c->externSeqStore.pos == 0 && c->externSeqStore.posInSequence == 0 && c->externSeqStore.capacity == 0,
              "C07 reset: no external sequences are inherited");
        CLAIM(c->appliedParams.cParams.windowLog == wlog && c->appliedParams.maxBlockSize == maxBlock && c->blockState.matchState.cParams.windowLog == wlog, "C07 reset: applied parameters are the requested ones");
        CLAIM(c->appliedParams.fParams.contentSizeFlag == (pledged == ZSTD_CONTENTSIZE_UNKNOWN ? 0 : csflag), "C09 reset: no content size is announced when none was pledged");
        CLAIM(c->blockSize == (maxBlock < windowSize ? maxBlock : windowSize), "C07 reset: block size = min(max block size, window, pledged size)");
        CLAIM(c->initialized == 1 && c->bufferedPolicy == (ZSTD_buffered_policy_e)zbuff, "C07 reset: context marked initialised, buffering policy recorded");
        if (zbuff == ZSTDb_buffered && inMode == ZSTD_bm_buffered)
            CLAIM(c->inBuffSize >= c->blockSize && c->inBuffSize == windowSize + c->blockSize, "C10 reset: the input staging buffer holds a window plus a block (the sizing fact unit c10_cstream_flush assumes)");
        if (zbuff == ZSTDb_buffered && outMode == ZSTD_bm_buffered)
            CLAIM(c->outBuffSize >= 1, "C10 reset: the output staging buffer is not empty");
    }
}
