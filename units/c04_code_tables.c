/*UNIT
{"props": ["C04","C05","C01"], "kind": "K2", "tier": "quick", "timeout": 300, "replay": true,
 "functions": ["ZSTD_LLcode","ZSTD_MLcode","LL_base","LL_bits","ML_base","ML_bits","OF_base","OF_bits"],
 "floor": 10,
 "what": "length/offset code tables of encoder and decoder equal the tables of the format document (typed in here from doc/zstd_compression_format.md as an independent oracle); the encoder's code functions select, for every length < 2^17, the unique code whose [baseline, baseline + 2^bits) interval contains it"}
*/
#include "verif.h"
#include "lib/compress/zstd_compress.c"
#include "lib/decompress/zstd_decompress_block.c"

/* doc/zstd_compression_format.md, "Literals length codes" / "Match length codes" */
static const U32 DOC_LL_BASE[36] = { 0,1,2,3,4,5,6,7,8,9,10,11,12,13,14,15, 16,18,20,22,24,28,32,40,48,64,128,256,512,1024,2048,4096,8192,16384,32768,65536 };
static const U8  DOC_LL_BITS[36] = { 0,0,0,0,0,0,0,0,0,0,0,0,0,0,0,0, 1,1,1,1,2,2,3,3,4,6,7,8,9,10,11,12,13,14,15,16 };
static const U32 DOC_ML_BASE[53] = { 3,4,5,6,7,8,9,10,11,12,13,14,15,16,17,18,19,20,21,22,23,24,25,26,27,28,29,30,31,32,33,34,
                                     35,37,39,41,43,47,51,59,67,83,99,131,259,515,1027,2051,4099,8195,16387,32771,65539 };
static const U8  DOC_ML_BITS[53] = { 0,0,0,0,0,0,0,0,0,0,0,0,0,0,0,0,0,0,0,0,0,0,0,0,0,0,0,0,0,0,0,0,
                                     1,1,1,1,2,2,3,3,4,4,5,7,8,9,10,11,12,13,14,15,16 };

void harness(void)
{
    IN(vu32, c); IN(vu32, len); IN(vu32, offBase);
    if (c <= MaxLL) {
        REACH("tables: LL code");
        CLAIM(LL_base[c] == DOC_LL_BASE[c], "C04 tables: decoder LL baseline equals the format document");
        CLAIM(LL_bits[c] == DOC_LL_BITS[c], "C04/C05 tables: LL extra-bit counts equal the format document");
    }
    if (c <= MaxML) {
        REACH("tables: ML code");
        CLAIM(ML_base[c] == DOC_ML_BASE[c], "C04 tables: decoder ML baseline equals the format document");
        CLAIM(ML_bits[c] == DOC_ML_BITS[c], "C04/C05 tables: ML extra-bit counts equal the format document");
    }
    if (c <= MaxOff) {
        /* Offset_Value = (1 << code) + extra bits; offset = Offset_Value - 3 when > 3 */
        CLAIM(OF_bits[c] == c, "C04 tables: offset code c carries c extra bits");
        CLAIM(OF_base[c] == (c >= 2 ? ((U32)1 << c) - 3 : c), "C04 tables: decoder offset baseline is 2^c - 3 (codes 0,1: repcode values)");
    }
    /* encoder side: the chosen code's interval contains the value, for every length the seqStore can hold */
    ASSUME(len <= 131071);
    {   U32 const lc = ZSTD_LLcode(len > 0xFFFF ? 0 : len);   /* lengths > 0xFFFF use the long-length escape (code forced to Max) */
        U32 const code = len > 0xFFFF ? MaxLL : lc;
        CLAIM(code <= MaxLL, "C05 tables: LL code in range");
        CLAIM(DOC_LL_BASE[code] <= len && (U64)len < (U64)DOC_LL_BASE[code] + ((U64)1 << DOC_LL_BITS[code]), "C01/C05 tables: LL code interval contains the literal length");
    }
    {   U32 const mc = ZSTD_MLcode(len > 0xFFFF ? 0 : len);   /* len plays mlBase = matchLength - 3 */
        U32 const code = len > 0xFFFF ? MaxML : mc;
        CLAIM(code <= MaxML, "C05 tables: ML code in range");
        CLAIM(DOC_ML_BASE[code] <= len + 3 && (U64)len + 3 < (U64)DOC_ML_BASE[code] + ((U64)1 << DOC_ML_BITS[code]), "C01/C05 tables: ML code interval contains the match length");
    }
    ASSUME(offBase >= 1);
    {   U32 const oc = ZSTD_highbit32(offBase);
        CLAIM(oc <= MaxOff, "C05 tables: offset code in range");
        CLAIM(((U32)1 << oc) <= offBase && (U64)offBase < ((U64)2 << oc), "C01 tables: offset code interval contains the offset value");
    }
}
