/*UNIT
{"props": ["C03"], "kind": "K2", "tier": "thorough", "timeout": 1500, "mem_gb": 24,
 "split": {"define": "ONLY_ENC", "values": {"raw": 0, "rle": 1, "compressed": 2, "repeat": 3}},
 "cbmc": ["--unwind", "260"],
 "extra_src": ["stubs/mem_ranges.c"],
 "functions": ["ZSTD_decodeLiteralsBlock", "ZSTD_allocateLiteralsBuffer", "ZSTD_blockSizeMax"],
 "floor": 100,
 "assumes": ["same harness and assumptions as c03_decode_literals, compiled with the DEFAULT literal buffer size (ZSTD_DECODER_INTERNAL_BUFFER = 64 KB); needs about 18 GB per run, so at most two run at a time"],
 "what": "c03_decode_literals in the default build configuration (64 KB internal literal buffer)"}
*/
#define VERIF_DEFAULT_LITBUFFER 1
#include "c03_decode_literals.c"
