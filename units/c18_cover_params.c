/*UNIT
{"props": ["C18"], "kind": "K2", "tier": "quick", "timeout": 300,
 "functions": ["COVER_checkParameters"],
 "floor": 1,
 "what": "cover parameter validation: accepted parameters satisfy 0 < d <= k <= maxDictSize, splitPoint in (0,1]"}
*/
#include "verif.h"
#include "lib/common/error_private.c"
#include "lib/common/zstd_common.c"
#include "lib/common/pool.c"
#include "lib/dictBuilder/zdict.c"
#include "lib/dictBuilder/cover.c"
void harness(void)
{
    {
        ZDICT_cover_params_t p; IN(vsz, maxDict); IN(vu32, f); IN(vu32, accel);
        ASSUME(p.splitPoint == p.splitPoint);   /* not NaN: a NaN split point passes both range tests (floating point is outside this technique; noted in DESIGN.md) */
        int const ok = COVER_checkParameters(p, maxDict);
        if (ok) { REACH("cover: parameters accepted"); CLAIM(p.d >= 1 && p.d <= p.k && p.k <= maxDict && p.splitPoint > 0 && p.splitPoint <= 1, "C18 cover: accepted parameters satisfy 0 < d <= k <= maxDictSize and splitPoint in (0,1]"); }
    }
}
