/*UNIT
{"props": ["C18","C08"], "kind": "K2", "tier": "quick", "timeout": 300, "cbmc": ["--unwind", "4"], "replay": false,
 "functions": ["ZDICT_maxRep"],
 "floor": 5,
 "assumes": ["the loop has the constant bound ZSTD_REP_NUM = 3: fully unwound, closed by the unwinding assertion (complete, not a bounded stand-in)"],
 "what": "the minimum dictionary content size used by ZDICT_finalizeDictionary: ZDICT_maxRep returns the maximum of ALL start repcodes (for any three values: an upper bound of each and equal to one of them), so the content is padded to at least every start repcode - the condition under which ZSTD_loadCEntropy / ZSTD_loadDEntropy accept the dictionary (each repcode <= content size); for the actual start values {1,4,8} it is 8"}
*/
#include "verif.h"
#include "lib/common/error_private.c"
#include "lib/common/zstd_common.c"
#include "lib/dictBuilder/zdict.c"
unsigned long long ZSTD_XXH64(const void* p, size_t n, unsigned long long seed) { (void)p; (void)n; (void)seed; return nondet_vu64(); }

void harness(void)
{
    IN(vu32, a); IN(vu32, b); IN(vu32, c);
    U32 reps[ZSTD_REP_NUM];
    U32 r;
    reps[0] = a; reps[1] = b; reps[2] = c;
    r = ZDICT_maxRep(reps);
    REACH("maxrep: computed");
    CLAIM(r >= a && r >= b && r >= c, "C18 maxrep: the minimum content size covers every start repcode");
    CLAIM(r == a || r == b || r == c, "C18 maxrep: and is one of them");
    CLAIM(ZSTD_REP_NUM == 3 && ZDICT_maxRep(repStartValue) == 8, "C18 maxrep: with the format's start repcodes {1,4,8} a dictionary gets at least 8 bytes of content");
}
