/*UNIT
{"props": ["C03"], "kind": "K2", "tier": "quick", "timeout": 900, "defines": ["ZSTD_DECODER_INTERNAL_BUFFER=64"], "split": {"define": "ONLY_ENC", "values": {"raw": 0, "rle": 1, "compressed": 2, "repeat": 3}},
 "cbmc": ["--unwind", "260"],
 "extra_src": ["stubs/mem_ranges.c"],
 "functions": ["ZSTD_decodeLiteralsBlock", "ZSTD_allocateLiteralsBuffer", "ZSTD_blockSizeMax"],
 "floor": 100,
 "assumes": ["the four Huffman decoders are replaced by their buffer contract, asserted at the call: dst[0..dstSize) writable, cSrc[0..cSrcSize) readable, result an error or dstSize (their bodies are not verified here)",
             "caller facts taken from ZSTD_decompressBlock_internal and its callers: srcSize <= blockSizeMax <= 128 KB, streaming only during frame decompression, dst has dstCapacity bytes",
             "memcpy/memmove/memset with symbolic length: stubs/mem_ranges.c (n <= 8 exact; longer: ranges asserted, one byte of the destination havocked)",
             "the context is one heap object of sizeof(ZSTD_DCtx) bytes with unconstrained content except the fields set by the harness",
             "BUILD CONFIGURATION: compiled with -DZSTD_DECODER_INTERNAL_BUFFER=64 (the documented tunable for the internal literal buffer, smallest legal value) so that the run needs 3 GB instead of 18 GB; the default 64 KB configuration is the thorough unit c03_decode_literals_full"],
 "what": "literals-section parser on arbitrary bytes of symbolic length, all four encodings and all three buffer placements: every header read stays inside the section, the Huffman decoders and the raw/RLE copies are handed ranges inside the section and inside dst or the extra buffer, and on success the literal pointer/size/end left for sequence execution describe readable memory with the over-read slack that the wildcopy needs"}
*/
#include "verif.h"
#include "lib/common/zstd_internal.h"
#include "lib/decompress/zstd_decompress_internal.h"
#include "lib/common/error_private.c"
#include "lib/common/zstd_common.c"
#undef FSE_isError
#undef HUF_isError
#include "lib/common/entropy_common.c"
#include "lib/common/fse_decompress.c"
#include "lib/decompress/zstd_decompress_block.c"

static int g_hufcalls;
static size_t huf_contract(void* dst, size_t dstSize, const void* cSrc, size_t cSrcSize)
{
    g_hufcalls++;
    __CPROVER_assert(dstSize == 0 || __CPROVER_w_ok(dst, dstSize), "C03 literals: the Huffman decoder is given a writable output range");
    __CPROVER_assert(cSrcSize == 0 || __CPROVER_r_ok(cSrc, cSrcSize), "C03 literals: the Huffman decoder is given a readable input range");
    if (nondet_vint()) return ERROR(corruption_detected);
    return dstSize;
}
size_t HUF_decompress1X_usingDTable(void* dst, size_t maxDstSize, const void* cSrc, size_t cSrcSize, const HUF_DTable* DTable, int flags)
{ (void)DTable; (void)flags; return huf_contract(dst, maxDstSize, cSrc, cSrcSize); }
size_t HUF_decompress4X_usingDTable(void* dst, size_t maxDstSize, const void* cSrc, size_t cSrcSize, const HUF_DTable* DTable, int flags)
{ (void)DTable; (void)flags; return huf_contract(dst, maxDstSize, cSrc, cSrcSize); }
size_t HUF_decompress1X1_DCtx_wksp(HUF_DTable* dctx, void* dst, size_t dstSize, const void* cSrc, size_t cSrcSize, void* workSpace, size_t wkspSize, int flags)
{ (void)dctx; (void)workSpace; (void)wkspSize; (void)flags; return huf_contract(dst, dstSize, cSrc, cSrcSize); }
size_t HUF_decompress4X_hufOnly_wksp(HUF_DTable* dctx, void* dst, size_t dstSize, const void* cSrc, size_t cSrcSize, void* workSpace, size_t wkspSize, int flags)
{ (void)dctx; (void)workSpace; (void)wkspSize; (void)flags; return huf_contract(dst, dstSize, cSrc, cSrcSize); }

void harness(void)
{
    /* the context as an untyped byte object: the literal buffer pointer may point into it at a symbolic offset */
    IN(vsz, dsz);
    ZSTD_DCtx* dptr;
    IN(vsz, n); IN(vsz, cap); IN(vsz, bmax); IN(vint, isFrame); IN(vint, streaming); IN(vu32, litEntropy);
    BYTE* src; BYTE* dst; size_t r;
    ASSUME(dsz == sizeof(ZSTD_DCtx));
    dptr = (ZSTD_DCtx*)malloc(dsz); ASSUME(dptr != NULL);
#define dobj (*dptr)
    ASSUME(isFrame == 0 || isFrame == 1);
    ASSUME(streaming == not_streaming || streaming == is_streaming);
    ASSUME(isFrame || streaming == not_streaming);
    ASSUME(bmax >= 1 && bmax <= ZSTD_BLOCKSIZE_MAX);
    ASSUME(cap <= ((size_t)1 << 20));
    dobj.isFrameDecompression = isFrame; dobj.fParams.blockSizeMax = (unsigned)bmax;
    dobj.litEntropy = litEntropy;
    ASSUME(n <= (isFrame ? bmax : (size_t)ZSTD_BLOCKSIZE_MAX));          /* checked by ZSTD_decompressBlock_internal */
    src = (BYTE*)malloc(n); ASSUME(src != NULL);
    dst = (BYTE*)malloc(cap); ASSUME(dst != NULL);
    g_hufcalls = 0;
    ASSUME(n == 0 || (src[0] & 3) == ONLY_ENC);                          /* one proof run per literals encoding */

    r = ZSTD_decodeLiteralsBlock(&dobj, src, n, dst, cap, (streaming_operation)streaming);
    if (ZSTD_isError(r)) { REACH("literals: refused"); return; }
    REACH("literals: accepted");
    {   size_t const blockSizeMax = isFrame ? bmax : (size_t)ZSTD_BLOCKSIZE_MAX;
        size_t const litSize = dobj.litSize;
        CLAIM(r <= n && r >= 1, "C03 literals: the section never extends past the block");
        CLAIM(litSize <= blockSizeMax && litSize <= cap, "C03 literals: the literal count is bounded by the block size and by the output capacity");
        CLAIM(g_hufcalls <= 1, "C03 literals: one entropy decoder call at most");
        if (dobj.litBufferLocation == ZSTD_in_dst) {
            REACH("literals: in dst");
            CLAIM(dobj.litPtr == dst + blockSizeMax + WILDCOPY_OVERLENGTH, "C03 literals: in-dst literals start after the space of the block");
            CLAIM(blockSizeMax + WILDCOPY_OVERLENGTH + litSize + WILDCOPY_OVERLENGTH <= cap, "C03 literals: in-dst literals and their over-read slack fit in dst");
            CLAIM(dobj.litBufferEnd == dobj.litPtr + litSize, "C03 literals: literal end matches");
        } else if (dobj.litBufferLocation == ZSTD_split) {
            REACH("literals: split");
            CLAIM(litSize > ZSTD_LITBUFFEREXTRASIZE, "C03 literals: only oversized literals are split");
            CLAIM(__CPROVER_same_object(dobj.litPtr, dst) && dobj.litPtr >= dst, "C03 literals: the first part of split literals is inside dst");
            CLAIM(dobj.litBufferEnd == dobj.litPtr + (litSize - ZSTD_LITBUFFEREXTRASIZE), "C03 literals: the first part holds litSize - extra bytes");
            CLAIM((size_t)(dobj.litBufferEnd - dst) <= MIN(blockSizeMax, cap), "C03 literals: the first part ends inside the space of the block");
        } else {
            CLAIM(dobj.litBufferLocation == ZSTD_not_in_dst, "C03 literals: placement is one of the three");
            if (__CPROVER_same_object(dobj.litPtr, src)) {
                REACH("literals: referenced in the input");
                CLAIM((size_t)(dobj.litPtr - src) + litSize + WILDCOPY_OVERLENGTH <= n, "C03 literals: literals referenced in place keep the over-read slack inside the block");
                CLAIM(dobj.litBufferEnd == dobj.litPtr + litSize, "C03 literals: literal end matches");
            } else {
                REACH("literals: extra buffer");
                CLAIM(dobj.litPtr == dobj.litExtraBuffer && litSize <= ZSTD_LITBUFFEREXTRASIZE, "C03 literals: small literals live in the extra buffer and fit there");
                CLAIM(dobj.litBufferEnd == dobj.litPtr + litSize, "C03 literals: literal end matches");
            }
        }
    }
}
