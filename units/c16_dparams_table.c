/*UNIT
{"props": ["C16","C14"], "kind": "K2", "tier": "quick", "timeout": 600, "replay": true,
 "functions": ["ZSTD_dParam_getBounds","ZSTD_DCtx_setParameter","ZSTD_DCtx_getParameter","ZSTD_DCtx_setMaxWindowSize","ZSTD_DCtx_reset","ZSTD_DCtx_resetParameters","ZSTD_clearDict"],
 "floor": 50,
 "assumes": ["ddictLocal is NULL in the reset part (freeing a digested dictionary is covered by the C13 units)"],
 "what": "set/get/bounds/stage/reset table of the decompression context over the entire (parameter id x int value) domain on a full-size ZSTD_DCtx with arbitrary prior content"}
*/
#include "verif.h"
#include "lib/decompress/zstd_ddict.c"
#include "lib/decompress/zstd_decompress.c"

static int all_params_equal_for(ZSTD_DCtx* a, ZSTD_DCtx* b, int p)
{
    int x = 11, y = 22;
    size_t const ra = ZSTD_DCtx_getParameter(a, (ZSTD_dParameter)p, &x);
    size_t const rb = ZSTD_DCtx_getParameter(b, (ZSTD_dParameter)p, &y);
    return ra == rb && (ra != 0 || x == y);
}

void harness(void)
{
    ZSTD_DCtx* const d  = (ZSTD_DCtx*)malloc(sizeof(ZSTD_DCtx));
    IN(vint, param);
    IN(vint, value);
    IN(vint, param2);
    IN(vint, which);
    IN(vsz, mws);
    IN(vint, directive);
    ZSTD_bounds b;
    ASSUME(d != NULL);
    /* data invariant of a live DCtx: the window limit is the default (2^27+1) or was accepted by a setter */
    IN(vsz, w_in); IN(vint, stage_in); IN(vsz, static_in); IN(vint, fmt_in); IN(vint, mbs_in);
    ASSUME(w_in >= ((size_t)1 << ZSTD_WINDOWLOG_ABSOLUTEMIN) && w_in <= ((size_t)1 << ZSTD_WINDOWLOG_MAX));
    d->maxWindowSize = w_in; d->streamStage = (ZSTD_dStreamStage)stage_in; d->staticSize = static_in;
    d->format = (ZSTD_format_e)fmt_in; d->maxBlockSizeParam = mbs_in;   /* the other fields stay arbitrary */

    /* snapshot of the parameter-carrying fields (the 7 parameters + stage) */
    ZSTD_format_e const f0 = d->format; size_t const w0 = d->maxWindowSize; ZSTD_bufferMode_e const o0 = d->outBufferMode;
    ZSTD_forceIgnoreChecksum_e const c0 = d->forceIgnoreChecksum; ZSTD_refMultipleDDicts_e const m0 = d->refMultipleDDicts;
    int const h0 = d->disableHufAsm; int const x0 = d->maxBlockSizeParam; ZSTD_dStreamStage const s0 = d->streamStage;
#define UNCHANGED() (d->format == f0 && d->maxWindowSize == w0 && d->outBufferMode == o0 && d->forceIgnoreChecksum == c0 \
                     && d->refMultipleDDicts == m0 && d->disableHufAsm == h0 && d->maxBlockSizeParam == x0 && d->streamStage == s0)

    if (which == 0) {               /* ---- setParameter ---- */
        size_t r;
        b = ZSTD_dParam_getBounds((ZSTD_dParameter)param);
        r = ZSTD_DCtx_setParameter(d, (ZSTD_dParameter)param, value);
        if (!ZSTD_isError(b.error)) CLAIM(b.lowerBound <= b.upperBound, "C16 dparams: bounds ordered");
        if (ZSTD_isError(r)) {
            REACH("dparams: rejected");
            CLAIM(UNCHANGED(), "C16 dparams: a rejected call changes nothing");
            if (s0 != zdss_init) { REACH("dparams: mid-frame"); }
            if (s0 == zdss_init && !ZSTD_isError(b.error) && !(param == ZSTD_d_refMultipleDDicts && d->staticSize != 0)) {
                CLAIM(value < b.lowerBound || value > b.upperBound, "C16 dparams: values inside the advertised bounds are accepted");
                /* the documented 0 = default of windowLogMax and maxBlockSize is not an error either */
                CLAIM(!(value == 0 && (param == ZSTD_d_windowLogMax || param == ZSTD_d_maxBlockSize)), "C16 dparams: 0 means default");
            }
        } else {
            int v = 0x5a5a5a5a;
            REACH("dparams: accepted");
            CLAIM(s0 == zdss_init, "C16 dparams: parameters are refused mid-frame");
            CLAIM(!ZSTD_isError(b.error), "C16 dparams: accepted parameter has bounds");
            CLAIM(ZSTD_DCtx_getParameter(d, (ZSTD_dParameter)param, &v) == 0, "C16 dparams: accepted parameter readable");
            CLAIM((v >= b.lowerBound && v <= b.upperBound) || (v == 0 && param == ZSTD_d_maxBlockSize), "C16 dparams: stored value inside advertised bounds");
            if (value >= b.lowerBound && value <= b.upperBound) {
                REACH("dparams: accepted in-range");
                CLAIM(v == value, "C16 dparams: in-range value reads back unchanged");
            } else {
                CLAIM(value == 0 && (param == ZSTD_d_windowLogMax || param == ZSTD_d_maxBlockSize), "C16 dparams: out-of-range values are rejected (only 0 = default is accepted outside)");
                if (param == ZSTD_d_windowLogMax) CLAIM(v == ZSTD_WINDOWLOG_LIMIT_DEFAULT, "C16 dparams: windowLogMax 0 selects the documented default 27");
            }
            CLAIM(d->streamStage == s0, "C16 dparams: stage untouched");
            if (param2 != param) {
                /* frame over the other parameters */
                int y = 3;
                size_t const ry = ZSTD_DCtx_getParameter(d, (ZSTD_dParameter)param2, &y);
                if (ry == 0) {
                    int const before = param2 == ZSTD_d_windowLogMax ? (int)ZSTD_highbit32((U32)w0) : param2 == ZSTD_d_format ? (int)f0 :
                                       param2 == ZSTD_d_stableOutBuffer ? (int)o0 : param2 == ZSTD_d_forceIgnoreChecksum ? (int)c0 :
                                       param2 == ZSTD_d_refMultipleDDicts ? (int)m0 : param2 == ZSTD_d_disableHuffmanAssembly ? h0 : x0;
                    REACH("dparams: other parameter compared");
                    CLAIM(y == before, "C16 dparams: setting one parameter leaves every other parameter unchanged");
                }
            }
        }
    } else if (which == 1) {        /* ---- setMaxWindowSize ---- */
        size_t const r = ZSTD_DCtx_setMaxWindowSize(d, mws);
        if (ZSTD_isError(r)) {
            CLAIM(UNCHANGED(), "C16 dparams: rejected setMaxWindowSize changes nothing");
            CLAIM(s0 != zdss_init || mws < ((size_t)1 << ZSTD_WINDOWLOG_ABSOLUTEMIN) || mws > ((size_t)1 << ZSTD_WINDOWLOG_MAX), "C16/C14 dparams: setMaxWindowSize accepts [2^10, 2^31]");
        } else {
            REACH("dparams: setMaxWindowSize accepted");
            CLAIM(s0 == zdss_init, "C16 dparams: setMaxWindowSize refused mid-frame");
            CLAIM(d->maxWindowSize == mws, "C14 dparams: window limit stored exactly");
            CLAIM(mws >= ((size_t)1 << ZSTD_WINDOWLOG_ABSOLUTEMIN) && mws <= ((size_t)1 << ZSTD_WINDOWLOG_MAX), "C16 dparams: setMaxWindowSize range");
        }
    } else {                        /* ---- reset ---- */
        size_t r;
        d->ddictLocal = NULL;
        r = ZSTD_DCtx_reset(d, (ZSTD_ResetDirective)directive);
        if (directive == ZSTD_reset_parameters || directive == ZSTD_reset_session_and_parameters) {
            if (ZSTD_isError(r)) {
                REACH("dparams: parameter reset refused");
                CLAIM(directive == ZSTD_reset_parameters && s0 != zdss_init, "C16 dparams: parameter reset is refused only mid-frame");
                CLAIM(UNCHANGED(), "C16 dparams: refused reset changes nothing");
            } else {
                int v;
                REACH("dparams: parameters reset");
                CLAIM(d->streamStage == zdss_init, "C16 dparams: after parameter reset the context is in init stage");
                /* documented defaults (zstd.h): windowLogMax 27, format zstd1, buffered output,
                 * validate checksum, single ddict, huffman asm enabled, maxBlockSize 0 */
                CLAIM(ZSTD_DCtx_getParameter(d, ZSTD_d_windowLogMax, &v) == 0 && v == 27, "C16 dparams: reset restores windowLogMax default");
                CLAIM(ZSTD_DCtx_getParameter(d, ZSTD_d_format, &v) == 0 && v == ZSTD_f_zstd1, "C16 dparams: reset restores format default");
                CLAIM(ZSTD_DCtx_getParameter(d, ZSTD_d_stableOutBuffer, &v) == 0 && v == 0, "C16 dparams: reset restores stableOutBuffer default");
                CLAIM(ZSTD_DCtx_getParameter(d, ZSTD_d_forceIgnoreChecksum, &v) == 0 && v == 0, "C16 dparams: reset restores forceIgnoreChecksum default");
                CLAIM(ZSTD_DCtx_getParameter(d, ZSTD_d_refMultipleDDicts, &v) == 0 && v == 0, "C16 dparams: reset restores refMultipleDDicts default");
                CLAIM(ZSTD_DCtx_getParameter(d, ZSTD_d_disableHuffmanAssembly, &v) == 0 && v == 0, "C16 dparams: reset restores disableHuffmanAssembly default");
                CLAIM(ZSTD_DCtx_getParameter(d, ZSTD_d_maxBlockSize, &v) == 0 && v == 0, "C16 dparams: reset restores maxBlockSize default");
                CLAIM(d->ddict == NULL && d->ddictLocal == NULL && d->dictUses == ZSTD_dont_use, "C16 dparams: parameter reset drops dictionaries");
            }
        } else if (directive == ZSTD_reset_session_only) {
            REACH("dparams: session reset");
            CLAIM(r == 0 && d->streamStage == zdss_init && d->noForwardProgress == 0, "C16 dparams: session reset returns to init");
            CLAIM(d->format == f0 && d->maxWindowSize == w0 && d->outBufferMode == o0 && d->forceIgnoreChecksum == c0 && d->refMultipleDDicts == m0 && d->disableHufAsm == h0 && d->maxBlockSizeParam == x0,
                  "C16 dparams: session reset keeps every parameter (sticky)");
        }
    }
}
