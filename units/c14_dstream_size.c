/*UNIT
{"props": ["C14","C02","C03"], "kind": "K2", "tier": "quick", "timeout": 600, "replay": true,
 "functions": ["ZSTD_decodingBufferSize_internal","ZSTD_decodingBufferSize_min","ZSTD_estimateDStreamSize","ZSTD_estimateDCtxSize"],
 "floor": 5,
 "assumes": ["window sizes up to 2^31 + 7*2^28 (the largest a frame header can declare outside single-segment mode) for the buffer-size function; w <= W <= 2^31 for the budget lemma (ZSTD_decompressStream rejects w > maxWindowSize first)"],
 "what": "decoder buffer sizing: ring buffer size is exactly min(contentSize, window + 2*block + 64) with no silent 64->size_t truncation; a streaming decoder limited to window W never needs more input+output buffer than ZSTD_estimateDStreamSize(W) - sizeof(DCtx) for any accepted frame"}
*/
#include "verif.h"
#include "lib/decompress/zstd_ddict.c"
#include "lib/decompress/zstd_decompress.c"

void harness(void)
{
    IN(vu64, w); IN(vu64, fcs); IN(vsz, b); IN(vsz, W);
    ASSUME(w <= (1ULL << 31) + 7 * (1ULL << 28));
    {   size_t const r = ZSTD_decodingBufferSize_internal(w, fcs, b);
        size_t const blk = (size_t)(w < ZSTD_BLOCKSIZE_MAX ? w : ZSTD_BLOCKSIZE_MAX) < b ? (size_t)(w < ZSTD_BLOCKSIZE_MAX ? w : ZSTD_BLOCKSIZE_MAX) : b;
        unsigned long long const need = w + 2 * (unsigned long long)blk + 2 * WILDCOPY_OVERLENGTH;
        REACH("dstream size: computed");
        CLAIM(!ZSTD_isError(r), "C14 dsize: no truncation error on LP64 for any declarable window");
        CLAIM(r == (fcs < need ? fcs : need), "C14/C02 dsize: ring buffer is exactly min(contentSize, window + 2*block + 2*WILDCOPY_OVERLENGTH)");
    }
    /* budget lemma for a decoder limited to window W */
    ASSUME(W >= (1u << ZSTD_WINDOWLOG_ABSOLUTEMIN) && W <= (1ULL << ZSTD_WINDOWLOG_MAX));
    ASSUME(w >= (1u << ZSTD_WINDOWLOG_ABSOLUTEMIN));      /* raised to the minimum before sizing (zstd_decompress.c) */
    if (w <= W && b <= ZSTD_BLOCKSIZE_MAX && b <= w) {
        size_t const inNeed  = b > 4 ? b : 4;
        size_t const outNeed = ZSTD_decodingBufferSize_internal(w, fcs, b);
        size_t const est = ZSTD_estimateDStreamSize(W);
        REACH("dstream size: budget");
        CLAIM(est >= sizeof(ZSTD_DCtx), "C14 dsize: estimate includes the context");
        CLAIM(inNeed + outNeed <= est - sizeof(ZSTD_DCtx), "C14 dsize: buffers of any accepted frame fit the estimate for the configured window limit");
        CLAIM(ZSTD_estimateDStreamSize(w) <= est, "C14 dsize: estimate is monotone in the window size");
    }
}
