/*UNIT
{"props": ["C17"], "kind": "K5", "tier": "quick", "timeout": 900,
 "cbmc": ["--unwind", "12"], "replace": ["ZSTD_storeSeq","ZSTD_storeLastLiterals"],
 "bounded": "one sequence followed by the block delimiter (one real iteration of the transcription loop), literal/match/last-literal lengths <= 100; all field values, positions, dictionary size, window log, minMatch symbolic",
 "functions": ["ZSTD_copySequencesToSeqStoreExplicitBlockDelim","ZSTD_copySequencesToSeqStoreNoBlockDelim","ZSTD_validateSequence","ZSTD_finalizeOffBase","ZSTD_storeSeq"],
 "floor": 50,
 "assumes": ["ZSTD_storeSeq / ZSTD_storeLastLiterals replaced by their contracts (contracts/seqstore.h); their preconditions (room in the sequence and literal buffers, literals inside the source) are obligations at the call sites"],
 "what": "validation rule taken from the property statement, checked on the real copiers (so the position actually passed to the validator is part of the claim): with validation on, a transcription that succeeds implies offset <= history available at the START of the match (within the window, or dictionary while reachable) and matchLength >= minimum"}
*/
#include "verif.h"
#include "lib/compress/zstd_compress_internal.h"
#include "seqstore.h"
#include "lib/common/error_private.c"
#include "lib/common/zstd_common.c"
#include "lib/compress/zstd_compress.c"

#define SRCMAX 400
void harness(void)
{
    IN(vint, explicitMode);
    IN(vu32, ll); IN(vu32, ml); IN(vu32, off); IN(vu32, lastLits);
    IN(vsz, pos0); IN(vu32, dictSize); IN(vu32, windowLog); IN(vu32, minMatch); IN(vint, hasProducer); IN(vint, repSearch);
    IN(vu32, r0); IN(vu32, r1); IN(vu32, r2);
    static ZSTD_CCtx cctx_obj;              /* typed object: CBMC treats its fields separately */
    ZSTD_CCtx* const c = &cctx_obj;
    ZSTD_compressedBlockState_t prevB, nextB;
    seqDef* const seqbuf = (seqDef*)malloc(4 * sizeof(seqDef));
    BYTE* const litbuf = (BYTE*)malloc(SRCMAX + WILDCOPY_OVERLENGTH);
    BYTE* const src = (BYTE*)malloc(SRCMAX);
    ZSTD_Sequence in[2];
    ZSTD_sequencePosition sp;
    size_t blockSize, r;
    static BYTE dictAnchor[1];
    ASSUME(ll <= 100 && ml <= 100 && lastLits <= 100);
    ASSUME(seqbuf && litbuf && src);
    ASSUME(windowLog >= ZSTD_WINDOWLOG_MIN && windowLog <= ZSTD_WINDOWLOG_MAX);
    ASSUME(minMatch >= ZSTD_MINMATCH_MIN && minMatch <= ZSTD_MINMATCH_MAX);
    ASSUME(pos0 <= ((size_t)1 << 40));
    ASSUME(r0 >= 1 && r1 >= 1 && r2 >= 1);
    ASSUME(off >= 1);
    ASSUME(repSearch == ZSTD_ps_enable || repSearch == ZSTD_ps_disable);

    c->cdict = NULL;
    c->prefixDict.dict = dictSize ? dictAnchor : NULL; c->prefixDict.dictSize = dictSize;
    c->appliedParams.validateSequences = 1;
    c->appliedParams.cParams.minMatch = minMatch;
    c->appliedParams.cParams.windowLog = windowLog;
    c->appliedParams.extSeqProdFunc = hasProducer ? (ZSTD_sequenceProducer_F)harness : NULL;
    c->blockState.prevCBlock = &prevB; c->blockState.nextCBlock = &nextB;
    prevB.rep[0] = r0; prevB.rep[1] = r1; prevB.rep[2] = r2;
    c->seqStore.sequencesStart = seqbuf; c->seqStore.sequences = seqbuf; c->seqStore.maxNbSeq = 4;
    c->seqStore.litStart = litbuf; c->seqStore.lit = litbuf; c->seqStore.maxNbLit = SRCMAX;
    c->seqStore.longLengthType = ZSTD_llt_none;

    in[0].offset = off; in[0].litLength = ll; in[0].matchLength = ml; in[0].rep = 0;
    in[1].offset = 0;   in[1].litLength = lastLits; in[1].matchLength = 0; in[1].rep = 0;
    sp.idx = 0; sp.posInSequence = 0; sp.posInSrc = pos0;
    blockSize = (size_t)ll + ml + lastLits;

    if (explicitMode) r = ZSTD_copySequencesToSeqStoreExplicitBlockDelim(c, &sp, in, 2, src, blockSize, (ZSTD_paramSwitch_e)repSearch);
    else              r = ZSTD_copySequencesToSeqStoreNoBlockDelim(c, &sp, in, 2, src, blockSize, (ZSTD_paramSwitch_e)repSearch);

    if (!ZSTD_isError(r) && ml != 0) {
        /* the rule, from the property statement: history available at the START of the match */
        size_t const matchStart = pos0 + ll;
        size_t const windowSize = (size_t)1 << windowLog;
        size_t const bound = matchStart > windowSize ? windowSize : matchStart + dictSize;
        REACH("validate: sequence accepted");
        CLAIM(off <= bound, "C17 validate: an accepted offset does not reach beyond the window or beyond the history available at the start of its match");
        CLAIM(ml >= ((minMatch == 3 || hasProducer) ? 3u : 4u), "C17 validate: an accepted match is at least the minimum match length");
        CLAIM(c->seqStore.sequences == seqbuf + 1, "C17 validate: exactly one sequence stored");
        CLAIM(sp.posInSrc == pos0 + blockSize, "C17 validate: position advanced by the block size");
    }
    if (ZSTD_isError(r)) REACH("validate: rejected");
}
