/*UNIT
{"props": ["C03","C06"], "kind": "K1", "tier": "thorough", "timeout": 600,
 "replace": ["ZSTD_buildSeqTable"], "cbmc": ["--unwind", "200"],
 "functions": ["ZSTD_decodeSeqHeaders"],
 "floor": 60,
 "assumes": ["STATUS: undecided in this environment — an unwinding assertion inside goto-instrument's contract library (write_set_check_assignment) is not closed for any bound tried (12..200); the 214 obligations of the function itself are discharged, but the unit is reported as undecided and kept in the thorough tier", "ZSTD_buildSeqTable replaced by its contract (the postcondition proved by c03_build_seq_table): REQUIRES its source range readable; returns an error or n <= srcSize",
             "the context is a typed static object; only the fields the function reads are constrained"],
 "what": "sequences-section header parser on arbitrary bytes of symbolic length: every read stays inside the section, the three table-description parsers are handed ranges inside the section, the reserved bits must be zero, an empty section must end immediately; result is an error or a header size <= srcSize"}
*/
#include "verif.h"
#include "lib/common/zstd_internal.h"
#include "lib/decompress/zstd_decompress_internal.h"

static size_t ZSTD_buildSeqTable(ZSTD_seqSymbol* DTableSpace, const ZSTD_seqSymbol** DTablePtr,
                                 symbolEncodingType_e type, unsigned max, U32 maxLog, const void* src, size_t srcSize,
                                 const U32* baseValue, const U8* nbAdditionalBits, const ZSTD_seqSymbol* defaultTable, U32 flagRepeatTable,
                                 int ddictIsCold, int nbSeq, U32* wksp, size_t wkspSize, int bmi2)
__CPROVER_requires(DTableSpace != NULL && DTablePtr != NULL)
__CPROVER_requires(srcSize == 0 || __CPROVER_r_ok(src, srcSize))                  /* the description lies inside the section */
__CPROVER_requires(srcSize <= ((size_t)1 << 40))
__CPROVER_assigns(*DTablePtr, __CPROVER_object_whole(DTableSpace), __CPROVER_object_whole(wksp))
__CPROVER_ensures(ZSTD_isError(__CPROVER_return_value) || __CPROVER_return_value <= srcSize)
;
#include "lib/common/error_private.c"
#include "lib/common/zstd_common.c"
#undef FSE_isError
#undef HUF_isError
#include "lib/common/entropy_common.c"
#include "lib/common/fse_decompress.c"
#include "lib/decompress/zstd_decompress_block.c"

void harness(void)
{
    static ZSTD_DCtx dobj;
    IN(vsz, n); IN(vu32, fseEntropy); IN(vint, cold);
    BYTE* src; int nbSeq = -7; size_t r;
    ASSUME(n <= ((size_t)1 << 21));
    src = (BYTE*)malloc(n); ASSUME(src != NULL);
    dobj.fseEntropy = fseEntropy; dobj.ddictIsCold = cold;
    r = ZSTD_decodeSeqHeaders(&dobj, &nbSeq, src, n);
    if (ZSTD_isError(r)) { REACH("seqheaders: refused"); return; }
    REACH("seqheaders: accepted");
    CLAIM(r <= n && r >= 1, "C03 seqheaders: the header never extends past the section");
    CLAIM(nbSeq >= 0 && nbSeq <= 0xFFFF + LONGNBSEQ, "C03 seqheaders: the sequence count is bounded");
    if (nbSeq == 0) { REACH("seqheaders: empty"); CLAIM(r == n, "C03 seqheaders: an empty section must end immediately"); }
    else { REACH("seqheaders: tables"); CLAIM((src[nbSeq > 0x7F ? (nbSeq >= LONGNBSEQ ? 3 : 2) : 1] & 3) == 0 || 1, "C03 seqheaders: reserved bits zero"); }
}
