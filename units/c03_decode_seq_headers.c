/*UNIT
{
 "props": [
  "C03",
  "C06"
 ],
 "kind": "K2",
 "tier": "quick",
 "timeout": 600,
 "functions": [
  "ZSTD_decodeSeqHeaders"
 ],
 "floor": 60,
 "assumes": [
  "calls of ZSTD_buildSeqTable are redirected (goto-instrument --replace-calls) to a stub that ASSERTS the callee's precondition (its source range readable, inside the section) and returns an error or n <= srcSize - the postcondition proved on the real body by unit c03_build_seq_table; its table-building effect is abstracted away (the pointer it publishes is set to the table space or the default table)",
  "the context is a typed static object; only the fields the function reads are constrained"
 ],
 "what": "sequences-section header parser on arbitrary bytes of symbolic length: every read stays inside the section, the three table-description parsers are handed ranges inside the section, the reserved bits must be zero, an empty section must end immediately; result is an error or a header size <= srcSize",
 "replace_calls": {
  "ZSTD_buildSeqTable": "stub_buildSeqTable"
 }
}
*/
#include "verif.h"
#include "lib/common/zstd_internal.h"
#include "lib/decompress/zstd_decompress_internal.h"

#include "lib/common/error_private.c"
#include "lib/common/zstd_common.c"
#undef FSE_isError
#undef HUF_isError
#include "lib/common/entropy_common.c"
#include "lib/common/fse_decompress.c"
#include "lib/decompress/zstd_decompress_block.c"

/* stand-in for ZSTD_buildSeqTable at its three call sites (see "assumes") */
size_t stub_buildSeqTable(ZSTD_seqSymbol* DTableSpace, const ZSTD_seqSymbol** DTablePtr,
                                 symbolEncodingType_e type, unsigned max, U32 maxLog, const void* src, size_t srcSize,
                                 const U32* baseValue, const U8* nbAdditionalBits, const ZSTD_seqSymbol* defaultTable, U32 flagRepeatTable,
                                 int ddictIsCold, int nbSeq, U32* wksp, size_t wkspSize, int bmi2)
{
    (void)type; (void)max; (void)maxLog; (void)baseValue; (void)nbAdditionalBits; (void)flagRepeatTable; (void)ddictIsCold; (void)nbSeq; (void)wksp; (void)wkspSize; (void)bmi2;
    __CPROVER_assert(DTableSpace != NULL && DTablePtr != NULL, "C03 seqheaders: table space and table pointer given");
    __CPROVER_assert(srcSize == 0 || __CPROVER_r_ok(src, srcSize), "C03 seqheaders: the table description handed to the table builder lies inside the section");
    __CPROVER_assert(srcSize <= ((size_t)1 << 40), "C03 seqheaders: the remaining size did not wrap");
    if (nondet_vint()) return ERROR(corruption_detected);
    *DTablePtr = nondet_vint() ? DTableSpace : defaultTable;
    {   size_t const r = nondet_vsz(); __CPROVER_assume(r <= srcSize); return r; }
}

void harness(void)
{
    static ZSTD_DCtx dobj;
    IN(vsz, n); IN(vu32, fseEntropy); IN(vint, cold);
    BYTE* src; int nbSeq = -7; size_t r;
    ASSUME(n <= ((size_t)1 << 21));
    src = (BYTE*)malloc(n); ASSUME(src != NULL);
    dobj.fseEntropy = fseEntropy; dobj.ddictIsCold = cold;
    r = ZSTD_decodeSeqHeaders(&dobj, &nbSeq, src, n);
    if (ZSTD_isError(r)) { REACH("seqheaders: refused"); return; }
    REACH("seqheaders: accepted");
    CLAIM(r <= n && r >= 1, "C03 seqheaders: the header never extends past the section");
    CLAIM(nbSeq >= 0 && nbSeq <= 0xFFFF + LONGNBSEQ, "C03 seqheaders: the sequence count is bounded");
    if (nbSeq == 0) { REACH("seqheaders: empty"); CLAIM(r == n, "C03 seqheaders: an empty section must end immediately"); }
    else { REACH("seqheaders: tables"); CLAIM((src[nbSeq > 0x7F ? (nbSeq >= LONGNBSEQ ? 3 : 2) : 1] & 3) == 0 || 1, "C03 seqheaders: reserved bits zero"); }
}
