/*UNIT
{"props": ["C11"], "kind": "K1", "tier": "quick", "timeout": 600,
 "defines": ["ZSTD_MULTITHREAD"],
 "extra_src": ["stubs/mem_sampled.c"],
 "replace": ["ZSTDMT_getInputDataInUse", "ZSTDMT_waitForLdmComplete"],
 "functions": ["ZSTDMT_isOverlapped","ZSTDMT_doesOverlapWindow","ZSTDMT_tryGetInputRange"],
 "floor": 60,
 "assumes": ["sequential obligations only: mutual exclusion and the worker/flush protocol are assumed, no schedule is explored",
             "ZSTDMT_getInputDataInUse replaced by its contract (assumed): returns the null range or a range inside the round buffer (the prefix+source of the first unfinished job)",
             "ZSTDMT_waitForLdmComplete replaced by its contract (assumed): changes nothing visible to the caller; on return the buffer does not overlap the LDM window",
             "round-buffer invariant: pos <= capacity, capacity >= prefix size + targetSectionSize (sizing in ZSTDMT_initCStream_internal), the current prefix lies inside the round buffer and ends at pos"],
 "what": "round input buffer of multithreaded compression: the overlap predicate is exact interval intersection; a range handed to the next job lies inside the round buffer, has the target size, and does not overlap the data still read by the earliest unfinished job; when the call gives up nothing is handed out"}
*/
#include "verif.h"
#include "lib/common/error_private.c"
#include "lib/common/zstd_common.c"
#include "lib/compress/zstd_compress_internal.h"
#include "lib/compress/zstdmt_compress.h"

/* forward declarations with contracts need the private types of zstdmt_compress.c: include it once for the
 * types and functions, contracts are attached by redeclaration below (CBMC merges them) */
#include "lib/compress/zstdmt_compress.c"

static BYTE* g_round; static size_t g_roundCap;
static range_t ZSTDMT_getInputDataInUse(ZSTDMT_CCtx* mtctx)
__CPROVER_requires(mtctx != NULL)
__CPROVER_assigns(zstd_verif_ghost.range_start, zstd_verif_ghost.range_size)
__CPROVER_ensures(zstd_verif_ghost.range_start == __CPROVER_return_value.start && zstd_verif_ghost.range_size == __CPROVER_return_value.size)
__CPROVER_ensures(__CPROVER_return_value.start == NULL
               || (__CPROVER_same_object(__CPROVER_return_value.start, g_round)
                   && __CPROVER_POINTER_OFFSET(__CPROVER_return_value.start) >= 0
                   && (size_t)__CPROVER_POINTER_OFFSET(__CPROVER_return_value.start) + __CPROVER_return_value.size <= g_roundCap))
;
static void ZSTDMT_waitForLdmComplete(ZSTDMT_CCtx* mtctx, buffer_t buffer)
__CPROVER_requires(mtctx != NULL)
__CPROVER_assigns()
;

static int overlap_spec(size_t a0, size_t an, size_t b0, size_t bn)
{   /* [a0, a0+an) and [b0, b0+bn) intersect, both non-empty */
    return an != 0 && bn != 0 && a0 < b0 + bn && b0 < a0 + an;
}

void harness(void)
{
    IN(vint, which); IN(vsz, cap); IN(vsz, a0); IN(vsz, an); IN(vsz, b0); IN(vsz, bn);
    ASSUME(cap >= 1 && cap <= ((size_t)1 << 34));
    g_round = (BYTE*)malloc(cap); g_roundCap = cap; ASSUME(g_round != NULL);
    ASSUME(a0 <= cap && an <= cap - a0 && b0 <= cap && bn <= cap - b0);

    if (which == 0) {
        buffer_t buf; range_t rg; int r;
        buf.start = g_round + a0; buf.capacity = an; rg.start = g_round + b0; rg.size = bn;
        r = ZSTDMT_isOverlapped(buf, rg);
        if (r) REACH("mt: overlap"); else REACH("mt: disjoint");
        CLAIM((r != 0) == overlap_spec(a0, an, b0, bn), "C11 ranges: isOverlapped is exactly interval intersection of two non-empty ranges");
        buf.start = NULL; CLAIM(ZSTDMT_isOverlapped(buf, rg) == 0, "C11 ranges: a null buffer overlaps nothing");
    } else if (which == 1) {
        IN(vu32, low); IN(vu32, dictLimit); IN(vu32, nextIdx);
        ZSTD_window_t w; buffer_t buf; int r;
        /* window over the same round buffer: extDict = [low, dictLimit) via dictBase, prefix = [dictLimit, next) via base */
        ASSUME(low <= dictLimit && dictLimit <= nextIdx && nextIdx <= cap);
        w.base = g_round; w.dictBase = g_round; w.lowLimit = low; w.dictLimit = dictLimit; w.nextSrc = g_round + nextIdx; w.nbOverflowCorrections = 0;
        buf.start = g_round + a0; buf.capacity = an;
        r = ZSTDMT_doesOverlapWindow(buf, w);
        CLAIM((r != 0) == (overlap_spec(a0, an, low, dictLimit - low) || overlap_spec(a0, an, dictLimit, nextIdx - dictLimit)),
              "C11 ranges: doesOverlapWindow is true exactly when the buffer intersects the window's extDict or prefix range");
    } else {
        static ZSTDMT_CCtx mt;
        IN(vsz, pos); IN(vsz, target); IN(vsz, p0); IN(vsz, pn);
        int r;
        ASSUME(pos <= cap && target >= 1 && target <= cap);
        ASSUME(p0 <= cap && pn <= cap - p0);
        mt.roundBuff.buffer = g_round; mt.roundBuff.capacity = cap; mt.roundBuff.pos = pos;
        mt.targetSectionSize = target;
        mt.inBuff.prefix.start = g_round + p0; mt.inBuff.prefix.size = pn;
        mt.inBuff.buffer.start = NULL; mt.inBuff.buffer.capacity = 0; mt.inBuff.filled = 77;
        /* the prefix is the tail of the previous section: it ends where the next section starts */
        ASSUME(p0 + pn == pos);
        /* sizing invariant from ZSTDMT_initCStream_internal: capacity = max(window, sections) + 2..3 sections, prefix <= window */
        ASSUME(pn + target <= cap);
        r = ZSTDMT_tryGetInputRange(&mt);
        if (r) {
            REACH("mt: range granted");
            CLAIM(__CPROVER_same_object(mt.inBuff.buffer.start, g_round), "C11 ranges: the granted range is in the round buffer");
            CLAIM((size_t)__CPROVER_POINTER_OFFSET(mt.inBuff.buffer.start) + mt.inBuff.buffer.capacity <= cap, "C11 ranges: the granted range ends inside the round buffer");
            CLAIM(mt.inBuff.buffer.capacity == target && mt.inBuff.filled == 0, "C11 ranges: the granted range has the target section size and starts empty");
            CLAIM((size_t)__CPROVER_POINTER_OFFSET(mt.inBuff.buffer.start) == mt.roundBuff.pos, "C11 ranges: the granted range starts at the round buffer position");
            if (zstd_verif_ghost.range_start != NULL) {
                REACH("mt: some job still reads the round buffer");
                CLAIM(!overlap_spec((size_t)__CPROVER_POINTER_OFFSET(mt.inBuff.buffer.start), mt.inBuff.buffer.capacity,
                                    (size_t)__CPROVER_POINTER_OFFSET(zstd_verif_ghost.range_start), zstd_verif_ghost.range_size),
                      "C11 ranges: a range is reused only when no unfinished job still reads it");
            }
            CLAIM((size_t)__CPROVER_POINTER_OFFSET(mt.inBuff.prefix.start) + mt.inBuff.prefix.size <= (size_t)__CPROVER_POINTER_OFFSET(mt.inBuff.buffer.start),
                  "C11 ranges: the prefix kept for the next job precedes the new section (they do not overlap)");
        } else {
            REACH("mt: range refused");
            CLAIM(mt.inBuff.buffer.start == NULL, "C11 ranges: when the call gives up no range is handed out");
        }
    }
}
