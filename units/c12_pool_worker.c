/*UNIT
{"props": ["C12"], "kind": "K4", "tier": "quick", "timeout": 900,
 "defines": ["ZSTD_MULTITHREAD", "ONLY_WHICH=5"],
 "loop_contracts": true,
 "functions": ["POOL_thread"],
 "floor": 100,
 "assumes": ["same monitor model as c12_pool_monitor (mutual exclusion assumed; I_pool assumed at acquisition, proved at every release)", "queued jobs carry valid function pointers"],
 "what": "worker loop of the thread pool (outer and inner loop contracts, unbounded): each iteration dequeues exactly queue[head], releases the mutex with I_pool re-established, executes exactly that job once without the mutex, and only then returns to the queue; exits only on shutdown, never holding the mutex"}
*/
#include "c12_pool_monitor.c"
