/*UNIT
{
 "props": [
  "C12"
 ],
 "kind": "K4",
 "tier": "experimental",
 "timeout": 900,
 "defines": [
  "ZSTD_MULTITHREAD",
  "ONLY_WHICH=5"
 ],
 "loop_contracts": true,
 "functions": [
  "POOL_thread"
 ],
 "floor": 50,
 "assumes": [
  "mutual exclusion: pthread_mutex_lock gives exclusive access to the protected fields (stub: asserts the lock is not already held by this thread, havocs the protected fields and assumes the monitor invariant I_pool); every release point (unlock, cond_wait) must re-establish I_pool; cond_signal/broadcast are no-ops",
  "every access to the protected fields happens under the queue mutex (not checked here)",
  "queued jobs carry valid function pointers (they were supplied by posters)",
  "queueSize <= 4096 (symbolic); thread creation in POOL_resize_internal stubbed (may fail)"
 ],
 "what": "thread-pool monitor-invariant proof, worker loop: monitor-invariant proof of the thread pool: every critical section of POOL_add / POOL_tryAdd / POOL_joinJobs / POOL_resize / POOL_thread preserves I_pool (indices in range, empty flag <=> head==tail, ghost accepted-dequeued == number of queued jobs), so for any interleaving of critical sections no job is lost or duplicated and no queue access is out of bounds; a worker executes each job it dequeues exactly once before touching the queue again; tryAdd returning 0 leaves the queue unchanged, 1 adds exactly one job"
}
*/
#include "verif.h"
#include "pool_monitor_harness.inc"
