/*UNIT
{"props": ["C04"], "kind": "K3", "tier": "quick", "timeout": 900, "replay": true,
 "cbmc": ["--unwind", "70"],
 "functions": ["ZSTD_buildFSETable","ZSTD_buildFSETable_body","LL_defaultDTable","OF_defaultDTable","ML_defaultDTable","LL_defaultNorm","OF_defaultNorm","ML_defaultNorm"],
 "floor": 100,
 "assumes": ["closed term: the only inputs are constants of the source, every loop bound is concrete (<= 64 cells, <= 53 symbols); --unwind 70 with unwinding assertions is therefore complete, not a bound on the input"],
 "what": "the hard-coded default sequence decoding tables equal, cell by cell (ghost cell index), the tables the real builder produces from the default distributions; the distributions equal the arrays of the format document"}
*/
#include "verif.h"
#include "lib/common/entropy_common.c"
#include "lib/common/fse_decompress.c"
#include "lib/decompress/zstd_decompress_block.c"

/* doc/zstd_compression_format.md, "Default Distributions" (independent oracle, typed in) */
static const short DOC_LL_NORM[36] = { 4, 3, 2, 2, 2, 2, 2, 2, 2, 2, 2, 2, 2, 1, 1, 1, 2, 2, 2, 2, 2, 2, 2, 2, 2, 3, 2, 1, 1, 1, 1, 1, -1,-1,-1,-1 };
static const short DOC_ML_NORM[53] = { 1, 4, 3, 2, 2, 2, 2, 2, 2, 1, 1, 1, 1, 1, 1, 1, 1, 1, 1, 1, 1, 1, 1, 1, 1, 1, 1, 1, 1, 1, 1, 1,
                                       1, 1, 1, 1, 1, 1, 1, 1, 1, 1, 1, 1, 1, 1, -1,-1, -1,-1,-1,-1,-1 };
static const short DOC_OF_NORM[29] = { 1, 1, 1, 1, 1, 1, 2, 2, 2, 1, 1, 1, 1, 1, 1, 1, 1, 1, 1, 1, 1, 1, 1, 1, -1,-1,-1,-1,-1 };

static void compare(const ZSTD_seqSymbol* built, const ZSTD_seqSymbol* hard, unsigned log, size_t k, const char* unused)
{
    const ZSTD_seqSymbol_header* hb = (const ZSTD_seqSymbol_header*)(const void*)built;
    const ZSTD_seqSymbol_header* hh = (const ZSTD_seqSymbol_header*)(const void*)hard;
    (void)unused;
    CLAIM(hb->tableLog == log && hh->tableLog == log, "C04 default tables: table log of built and hard-coded table agree");
    CLAIM((hb->fastMode != 0) == (hh->fastMode != 0), "C04 default tables: fast-mode flag agrees");
    /* cell k+1 (k ghost index over all 2^log cells) */
    CLAIM(built[k + 1].nextState == hard[k + 1].nextState, "C04 default tables: nextState of every cell equals the hard-coded table");
    CLAIM(built[k + 1].nbAdditionalBits == hard[k + 1].nbAdditionalBits, "C04 default tables: extra-bit count of every cell equals the hard-coded table");
    CLAIM(built[k + 1].nbBits == hard[k + 1].nbBits, "C04 default tables: state-bit count of every cell equals the hard-coded table");
    CLAIM(built[k + 1].baseValue == hard[k + 1].baseValue, "C04 default tables: baseline of every cell equals the hard-coded table");
}

void harness(void)
{
    IN(vint, which); IN(vsz, k); IN(vu32, s);
    U32 wksp[ZSTD_BUILD_FSE_TABLE_WKSP_SIZE_U32];
    ASSUME(which >= 0 && which <= 2);
    if (which == 0) {
        ZSTD_seqSymbol dt[SEQSYMBOL_TABLE_SIZE(LL_DEFAULTNORMLOG)];
        ASSUME(k < (1u << LL_DEFAULTNORMLOG));
        ZSTD_buildFSETable(dt, LL_defaultNorm, MaxLL, LL_base, LL_bits, LL_DEFAULTNORMLOG, wksp, sizeof(wksp), 0);
        REACH("default tables: LL built");
        compare(dt, LL_defaultDTable, LL_DEFAULTNORMLOG, k, "LL");
        if (s <= MaxLL) CLAIM(LL_defaultNorm[s] == DOC_LL_NORM[s], "C04 default tables: LL default distribution equals the format document");
    } else if (which == 1) {
        ZSTD_seqSymbol dt[SEQSYMBOL_TABLE_SIZE(OF_DEFAULTNORMLOG)];
        ASSUME(k < (1u << OF_DEFAULTNORMLOG));
        ZSTD_buildFSETable(dt, OF_defaultNorm, DefaultMaxOff, OF_base, OF_bits, OF_DEFAULTNORMLOG, wksp, sizeof(wksp), 0);
        REACH("default tables: OF built");
        compare(dt, OF_defaultDTable, OF_DEFAULTNORMLOG, k, "OF");
        if (s <= DefaultMaxOff) CLAIM(OF_defaultNorm[s] == DOC_OF_NORM[s], "C04 default tables: OF default distribution equals the format document");
    } else {
        ZSTD_seqSymbol dt[SEQSYMBOL_TABLE_SIZE(ML_DEFAULTNORMLOG)];
        ASSUME(k < (1u << ML_DEFAULTNORMLOG));
        ZSTD_buildFSETable(dt, ML_defaultNorm, MaxML, ML_base, ML_bits, ML_DEFAULTNORMLOG, wksp, sizeof(wksp), 0);
        REACH("default tables: ML built");
        compare(dt, ML_defaultDTable, ML_DEFAULTNORMLOG, k, "ML");
        if (s <= MaxML) CLAIM(ML_defaultNorm[s] == DOC_ML_NORM[s], "C04 default tables: ML default distribution equals the format document");
    }
}
