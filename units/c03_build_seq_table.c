/*UNIT
{"props": ["C03","C08"], "kind": "K1", "tier": "quick", "timeout": 600,
 "replace": ["FSE_readNCount", "ZSTD_buildFSETable"],
 "functions": ["ZSTD_buildSeqTable","ZSTD_buildSeqTable_rle"],
 "floor": 60,
 "assumes": ["FSE_readNCount replaced by its contract (assumed): REQUIRES the header range readable and room for *maxSV+1 counts; returns an error or n <= hbSize with tableLog <= 15 and a maximum symbol not above the one passed in",
             "ZSTD_buildFSETable replaced by its contract: REQUIRES maxSymbolValue <= MaxSeq, tableLog <= 9, the table object large enough for 1 + 2^tableLog cells and the workspace large enough (these are the caller obligations this unit is about)",
             "ddictIsCold == 0 (the prefetch loop is a no-op in the verification build)"],
 "what": "sequence-table description parser on arbitrary bytes, for the three alphabets: in RLE mode the symbol is checked against the alphabet before it indexes the base/bits tables; in compressed mode a table log above the alphabet's maximum is refused BEFORE the table is built, so the builder never writes past the table space; repeat mode requires a previous table; result is an error or a header size <= srcSize"}
*/
#include "verif.h"
#include "lib/common/zstd_internal.h"
#include "lib/decompress/zstd_decompress_internal.h"
#include "lib/common/error_private.c"
#include "lib/common/zstd_common.c"
#undef FSE_isError
#undef HUF_isError
#include "lib/common/entropy_common.c"
#include "lib/common/fse_decompress.c"
#include "lib/decompress/zstd_decompress_block.c"

size_t FSE_readNCount(short* normalizedCounter, unsigned* maxSVPtr, unsigned* tableLogPtr, const void* headerBuffer, size_t hbSize)
__CPROVER_requires(maxSVPtr != NULL && tableLogPtr != NULL && *maxSVPtr <= 255)
__CPROVER_requires(__CPROVER_w_ok(normalizedCounter, ((size_t)*maxSVPtr + 1) * sizeof(short)))
__CPROVER_requires(hbSize == 0 || __CPROVER_r_ok(headerBuffer, hbSize))
__CPROVER_assigns(__CPROVER_object_whole(normalizedCounter), *maxSVPtr, *tableLogPtr)
__CPROVER_ensures(ZSTD_isError(__CPROVER_return_value) || (__CPROVER_return_value <= hbSize && *tableLogPtr <= FSE_TABLELOG_ABSOLUTE_MAX && *maxSVPtr <= __CPROVER_old(*maxSVPtr)))
;
void ZSTD_buildFSETable(ZSTD_seqSymbol* dt, const short* normalizedCounter, unsigned maxSymbolValue,
                        const U32* baseValue, const U8* nbAdditionalBits, unsigned tableLog, void* wksp, size_t wkspSize, int bmi2)
__CPROVER_requires(maxSymbolValue <= MaxSeq && tableLog <= MaxFSELog)
__CPROVER_requires(__CPROVER_w_ok(dt, (1 + ((size_t)1 << tableLog)) * sizeof(ZSTD_seqSymbol)))       /* header + 2^tableLog cells fit the table space */
__CPROVER_requires(wkspSize >= ZSTD_BUILD_FSE_TABLE_WKSP_SIZE && __CPROVER_w_ok(wksp, ZSTD_BUILD_FSE_TABLE_WKSP_SIZE))
__CPROVER_requires(__CPROVER_r_ok(normalizedCounter, ((size_t)maxSymbolValue + 1) * sizeof(short)))
__CPROVER_assigns(__CPROVER_object_whole(dt), __CPROVER_object_whole(wksp))
;

void harness(void)
{
    IN(vint, which); IN(vint, type); IN(vsz, n); IN(vu32, flagRepeat); IN(vint, nbSeq);
    unsigned const max    = which == 0 ? MaxLL : which == 1 ? MaxOff : MaxML;
    U32 const maxLog      = which == 0 ? LLFSELog : which == 1 ? OffFSELog : MLFSELog;
    const U32* const base = which == 0 ? LL_base : which == 1 ? OF_base : ML_base;
    const U8* const bits  = which == 0 ? LL_bits : which == 1 ? OF_bits : ML_bits;
    const ZSTD_seqSymbol* const def = which == 0 ? LL_defaultDTable : which == 1 ? OF_defaultDTable : ML_defaultDTable;
    ZSTD_seqSymbol* space; const ZSTD_seqSymbol* tablePtr; const ZSTD_seqSymbol* const prev = def;
    U32* wksp; BYTE* src; size_t r;
    ASSUME(which >= 0 && which <= 2);
    ASSUME(type >= set_basic && type <= set_repeat);
    ASSUME(n <= ((size_t)1 << 21));
    space = (ZSTD_seqSymbol*)malloc(sizeof(ZSTD_seqSymbol) * SEQSYMBOL_TABLE_SIZE(maxLog));   /* exactly what ZSTD_entropyDTables_t provides */
    wksp = (U32*)malloc(ZSTD_BUILD_FSE_TABLE_WKSP_SIZE); src = (BYTE*)malloc(n);
    ASSUME(space && wksp && src);
    tablePtr = prev;
    r = ZSTD_buildSeqTable(space, &tablePtr, (symbolEncodingType_e)type, max, maxLog, src, n, base, bits, def, flagRepeat, 0, nbSeq, wksp, ZSTD_BUILD_FSE_TABLE_WKSP_SIZE, 0);
    if (ZSTD_isError(r)) { REACH("buildSeqTable: refused"); return; }
    REACH("buildSeqTable: accepted");
    CLAIM(r <= n, "C03 seqtable: the table description never extends past the input");
    CLAIM(tablePtr == space || tablePtr == def || tablePtr == prev, "C03 seqtable: the active table is the freshly built one, the default one, or the previous one");
    if (type == set_repeat) CLAIM(flagRepeat != 0, "C03 seqtable: repeat mode requires a previous table");
    if (type == set_rle) { REACH("buildSeqTable: rle"); CLAIM(n >= 1 && r == 1 && src[0] <= max && tablePtr == space, "C03 seqtable: RLE symbol is inside the alphabet"); }
    if (type == set_compressed) REACH("buildSeqTable: compressed");
}
