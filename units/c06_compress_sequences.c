/*UNIT
{"props": ["C06","C17"], "kind": "K1", "tier": "quick", "timeout": 600,
 "extra_src": ["stubs/xxh_stub.c"],
 "enforce": ["ZSTD_compressSequences"],
 "replace": ["ZSTD_CCtx_init_compressStream2", "ZSTD_compressSequences_internal"],
 "functions": ["ZSTD_compressSequences","ZSTD_writeFrameHeader"],
 "floor": 30,
 "assumes": ["callee contracts (assumed here, see contracts in this file): ZSTD_CCtx_init_compressStream2 leaves valid applied parameters; ZSTD_compressSequences_internal REQUIRES dst[0..cap) writable and returns error or n <= cap",
             "XXH64 uninterpreted (stubs/xxh_stub.c)"],
 "what": "ZSTD_compressSequences: for every destination capacity (including < 18) writes only inside dst[0..cap) and returns an error or a size <= cap; in particular the block writer is only ever handed a range that lies inside dst"}
*/
#include "verif.h"
#include "lib/compress/zstd_compress_internal.h"

/* ---- contracts ---- */
static size_t ZSTD_CCtx_init_compressStream2(ZSTD_CCtx* cctx, ZSTD_EndDirective endOp, size_t inSize)
__CPROVER_requires(cctx != NULL)
__CPROVER_assigns(__CPROVER_object_whole(cctx))
__CPROVER_ensures(ZSTD_isError(__CPROVER_return_value) ||
                  (cctx->appliedParams.cParams.windowLog >= ZSTD_WINDOWLOG_ABSOLUTEMIN && cctx->appliedParams.cParams.windowLog <= ZSTD_WINDOWLOG_MAX
                   && (cctx->appliedParams.format == ZSTD_f_zstd1 || cctx->appliedParams.format == ZSTD_f_zstd1_magicless)))
;

static size_t ZSTD_compressSequences_internal(ZSTD_CCtx* cctx, void* dst, size_t dstCapacity,
                                              const ZSTD_Sequence* inSeqs, size_t inSeqsSize, const void* src, size_t srcSize)
__CPROVER_requires(cctx != NULL)
__CPROVER_requires(dstCapacity == 0 || __CPROVER_w_ok(dst, dstCapacity))      /* the writer's precondition: its range is inside the caller's buffer */
__CPROVER_assigns(__CPROVER_object_whole(cctx), __CPROVER_object_whole(dst))
__CPROVER_ensures(ZSTD_isError(__CPROVER_return_value) || __CPROVER_return_value <= dstCapacity)
;

size_t ZSTD_compressSequences(ZSTD_CCtx* cctx, void* dst, size_t dstCapacity,
                              const ZSTD_Sequence* inSeqs, size_t inSeqsSize, const void* src, size_t srcSize)
__CPROVER_requires(__CPROVER_is_fresh(cctx, sizeof(ZSTD_CCtx)))
__CPROVER_requires(dstCapacity <= ((size_t)1 << 40) && __CPROVER_is_fresh(dst, dstCapacity))
__CPROVER_requires(srcSize <= ((size_t)1 << 40) && __CPROVER_is_fresh(src, srcSize))
__CPROVER_assigns(__CPROVER_object_whole(cctx), __CPROVER_object_whole(dst), ZSTD_VERIF_GHOST_FRAME)
__CPROVER_ensures(ZSTD_isError(__CPROVER_return_value) || __CPROVER_return_value <= dstCapacity)
;

#include "lib/common/error_private.c"
#include "lib/common/zstd_common.c"
#include "lib/compress/zstd_compress.c"

void harness(void)
{
    ZSTD_CCtx* cctx; void* dst; size_t cap; const ZSTD_Sequence* seqs; size_t nseq; const void* src; size_t n;
    size_t const r = ZSTD_compressSequences(cctx, dst, cap, seqs, nseq, src, n);
    if (ZSTD_isError(r)) { REACH("compressSequences: error path"); }
    else { REACH("compressSequences: success path"); if (cap < ZSTD_FRAMEHEADERSIZE_MAX) CLAIM(0, "C06 compressSequences: capacity below the frame header size cannot succeed"); }
}
