/*UNIT
{"props": ["C06"], "kind": "K1", "tier": "quick", "timeout": 900,
 "loop_contracts": true, "cbmc": ["--unwind", "16", "--sat-solver", "cadical"],
 "extra_src": ["stubs/xxh_stub.c", "stubs/mem_ranges.c"],
 "replace": ["ZSTD_splitBlock", "ZSTD_overflowCorrectIfNeeded", "ZSTD_checkDictValidity", "ZSTD_window_enforceMaxDist",
             "ZSTD_compressBlock_targetCBlockSize", "ZSTD_compressBlock_splitBlock", "ZSTD_compressBlock_internal"],
 "functions": ["ZSTD_compress_frameChunk","ZSTD_optimalBlockSize","ZSTD_noCompressBlock"],
 "floor": 150,
 "assumes": ["the three block compressors are replaced by ASSUMED contracts: REQUIRES (asserted at every call) dst[0..cap) writable, src[0..srcSize) readable, 1 <= srcSize <= 128 KB; ENSURES an error or a size <= cap (ZSTD_compressBlock_internal: <= srcSize as well, 0 meaning not compressible); their writes to the context are abstracted away except the window/dictionary fields listed in the loop frame",
             "ZSTD_splitBlock (block-boundary heuristic) replaced by an ASSUMED contract: 1 <= result <= min(srcSize, blockSizeMax)",
             "window maintenance (ZSTD_overflowCorrectIfNeeded, ZSTD_checkDictValidity, ZSTD_window_enforceMaxDist) replaced by frame-only contracts; their own behaviour is units c15_overflow / c05_window_enforce",
             "XXH64 uninterpreted, byte count in a ghost; src and dst separate objects; cctx->blockSize in 1..128 KB, windowLog <= 31"],
 "what": "block loop of the frame compressor on a chunk of symbolic size <= 4 GiB, unbounded number of blocks (loop contract with variant): every input byte goes into exactly one block of 1..128 KB, every block compressor gets an output range inside dst, the header written for compressed/RLE/raw blocks states the type, size and last-block flag of the block that follows, exactly the final block of a last chunk carries the last-block flag and nothing follows it, the checksum is fed the whole chunk, the result is an error or the number of bytes produced <= capacity, and the stage moves to 'ending' only after a last chunk produced output"}
*/
#include "verif.h"
#include "lib/compress/zstd_compress_internal.h"
#include "lib/compress/zstd_preSplit.h"

#define BLOCK_COMPRESSOR_CONTRACT(extra) \
__CPROVER_requires(zc != NULL && srcSize >= 1 && srcSize <= ZSTD_BLOCKSIZE_MAX) \
__CPROVER_requires(dstCapacity == 0 || __CPROVER_w_ok(dst, dstCapacity)) \
__CPROVER_requires(__CPROVER_r_ok(src, srcSize)) \
__CPROVER_assigns(__CPROVER_object_whole(dst)) \
__CPROVER_ensures(ZSTD_isError(__CPROVER_return_value) || (__CPROVER_return_value <= dstCapacity extra))

static size_t ZSTD_compressBlock_targetCBlockSize(ZSTD_CCtx* zc, void* dst, size_t dstCapacity, const void* src, size_t srcSize, U32 lastBlock)
BLOCK_COMPRESSOR_CONTRACT(&& __CPROVER_return_value >= 1)
;
static size_t ZSTD_compressBlock_splitBlock(ZSTD_CCtx* zc, void* dst, size_t dstCapacity, const void* src, size_t srcSize, U32 lastBlock)
BLOCK_COMPRESSOR_CONTRACT()
;
static size_t ZSTD_compressBlock_internal(ZSTD_CCtx* zc, void* dst, size_t dstCapacity, const void* src, size_t srcSize, U32 frame)
__CPROVER_requires(dstCapacity >= MIN_CBLOCK_SIZE + 1)          /* room for the RLE byte: the fact unit c08_block_offcode_mode assumes */
BLOCK_COMPRESSOR_CONTRACT(&& __CPROVER_return_value <= srcSize)
;
size_t ZSTD_splitBlock(const void* src, size_t srcSize, size_t blockSizeMax, ZSTD_SplitBlock_strategy_e splitStrat, void* workspace, size_t wkspSize)
__CPROVER_requires(srcSize >= 1 && __CPROVER_r_ok(src, srcSize) && blockSizeMax >= 1)
__CPROVER_assigns()
__CPROVER_ensures(__CPROVER_return_value >= 1 && __CPROVER_return_value <= srcSize && __CPROVER_return_value <= blockSizeMax)
;
static void ZSTD_overflowCorrectIfNeeded(ZSTD_matchState_t* ms, ZSTD_cwksp* ws, ZSTD_CCtx_params const* params, void const* ip, void const* iend)
__CPROVER_requires(ms != NULL && ws != NULL && params != NULL && __CPROVER_same_object(ip, iend))
__CPROVER_assigns(ms->window, ms->nextToUpdate, ms->loadedDictEnd, ms->dictMatchState)
;
MEM_STATIC void ZSTD_checkDictValidity(const ZSTD_window_t* window, const void* blockEnd, U32 maxDist, U32* loadedDictEndPtr, const ZSTD_matchState_t** dictMatchStatePtr)
__CPROVER_requires(window != NULL && loadedDictEndPtr != NULL && dictMatchStatePtr != NULL)
__CPROVER_assigns(*loadedDictEndPtr, *dictMatchStatePtr)
;
MEM_STATIC void ZSTD_window_enforceMaxDist(ZSTD_window_t* window, const void* blockEnd, U32 maxDist, U32* loadedDictEndPtr, const ZSTD_matchState_t** dictMatchStatePtr)
__CPROVER_requires(window != NULL && loadedDictEndPtr != NULL && dictMatchStatePtr != NULL)
__CPROVER_assigns(window->lowLimit, window->dictLimit, *loadedDictEndPtr, *dictMatchStatePtr)
;
#include "lib/common/error_private.c"
#include "lib/common/zstd_common.c"
#include "lib/compress/zstd_compress.c"

void harness(void)
{
    static ZSTD_CCtx cobj;
    ZSTD_CCtx* const c = &cobj;
    IN(vsz, n); IN(vsz, cap); IN(vu32, last); IN(vsz, blockSize); IN(vu32, wlog); IN(vint, strat); IN(vint, checksum);
    IN(vsz, target); IN(vint, splitter); IN(vu64, consumed); IN(vu64, produced); IN(vint, stage0);
    BYTE* src; BYTE* dst; size_t r; unsigned long long xxh0;
    ASSUME(n <= ((size_t)1 << 32) && cap <= ((size_t)1 << 32));
    ASSUME(last <= 1);
    ASSUME(blockSize >= 1 && blockSize <= ZSTD_BLOCKSIZE_MAX);
    ASSUME(wlog >= ZSTD_WINDOWLOG_MIN && wlog <= ZSTD_WINDOWLOG_MAX);
    ASSUME(strat >= ZSTD_fast && strat <= ZSTD_btultra2);
    ASSUME(splitter == ZSTD_ps_enable || splitter == ZSTD_ps_disable);
    ASSUME(consumed <= ((vu64)1 << 62) && produced <= ((vu64)1 << 62));
    ASSUME(stage0 == ZSTDcs_ongoing);
    src = (BYTE*)malloc(n); ASSUME(src != NULL);
    dst = (BYTE*)malloc(cap); ASSUME(dst != NULL);
    c->blockSize = blockSize; c->appliedParams.cParams.windowLog = wlog; c->appliedParams.cParams.strategy = (ZSTD_strategy)strat;
    c->appliedParams.fParams.checksumFlag = checksum; c->appliedParams.targetCBlockSize = target;
    c->appliedParams.useBlockSplitter = (ZSTD_paramSwitch_e)splitter;
    c->consumedSrcSize = consumed; c->producedCSize = produced; c->stage = (ZSTD_compressionStage_e)stage0;
    c->tmpWorkspace = NULL; c->tmpWkspSize = 0;
    zstd_verif_ghost.chunk_src_bytes = 0; zstd_verif_ghost.chunk_blocks = 0; zstd_verif_ghost.chunk_last_seen = 0;
    zstd_verif_ghost.xxh_bytes = nondet_vu64(); ASSUME(zstd_verif_ghost.xxh_bytes <= ((vu64)1 << 62)); xxh0 = zstd_verif_ghost.xxh_bytes;

    r = ZSTD_compress_frameChunk(c, dst, cap, src, n, last);
    if (ZSTD_isError(r)) { REACH("chunk: error"); return; }
    REACH("chunk: done");
    CLAIM(r <= cap, "C06 chunk: the bytes produced never exceed the capacity");
    CLAIM(zstd_verif_ghost.chunk_src_bytes == n, "C06 chunk: every input byte of the chunk went into exactly one block");
    CLAIM(zstd_verif_ghost.chunk_last_seen == (last && n > 0 ? 1u : 0u), "C06 chunk: the last-block flag is carried by exactly the final block of a last chunk");
    CLAIM(zstd_verif_ghost.xxh_bytes == xxh0 + ((checksum && n) ? n : 0), "C09 chunk: with a checksum the whole chunk is fed to the hash, once");
    CLAIM(c->stage == ((last && r > 0) ? ZSTDcs_ending : ZSTDcs_ongoing), "C06 chunk: the stage moves to 'ending' exactly when a last chunk produced output");
    if (n > 0) { REACH("chunk: blocks emitted"); CLAIM(zstd_verif_ghost.chunk_blocks >= 1, "C06 chunk: a non-empty chunk produces at least one block"); }
    if (zstd_verif_ghost.chunk_blocks > 1) REACH("chunk: several blocks");
}
