/*UNIT
{"props": ["C15"], "kind": "K2", "tier": "quick", "timeout": 600, "replay": true,
 "functions": ["ZSTD_window_needOverflowCorrection","ZSTD_window_correctOverflow","ZSTD_cycleLog","ZSTD_window_canOverflowCorrect"],
 "floor": 20,
 "assumes": ["call pattern of ZSTD_overflowCorrectIfNeeded from ZSTD_compress_frameChunk/ZSTD_loadDictionaryContent/LDM: cParams valid (ZSTD_checkCParams), maxDist = 1<<windowLog, cycleLog = ZSTD_cycleLog(chainLog,strategy)",
             "window invariant lowLimit <= dictLimit <= curr (indices never ahead of the current position)",
             "the checked chunk [ip,iend) is at most ZSTD_CHUNKSIZE_MAX long and the previous check passed or was corrected: curr <= ZSTD_CURRENT_MAX + ZSTD_CHUNKSIZE_MAX cannot wrap 32 bits (premise: ip-base <= ZSTD_CURRENT_MAX at the previous chunk end)"],
 "what": "overflow-correction arithmetic over the full 32-bit index domain: trigger, cycle bits preserved, window still reachable, no underflow, rebase exact, next chunk cannot overflow"}
*/
#include "verif.h"
#include "lib/compress/zstd_compress.c"

void harness(void)
{
    IN(vu32, curr); IN(vu32, chunk); IN(vu32, windowLog); IN(vu32, chainLog); IN(vint, strategy);
    IN(vu32, lowLimit); IN(vu32, dictLimit); IN(vu32, loadedDictEnd); IN(vu32, nbCorr); IN(vu32, someIndex);
    ZSTD_window_t w;
    /* the index space is modelled by two real objects (never read or written here), so that
     * base, dictBase, ip and iend are ordinary in-bounds pointers: index i <-> space + i */
    BYTE* const anchor  = (BYTE*)malloc((size_t)curr + chunk);
    BYTE* const anchor2 = (BYTE*)malloc((size_t)curr + chunk);
    const BYTE *ip, *iend;
    U32 cycleLog, maxDist, need;
    ASSUME(anchor && anchor2);
    ASSUME(windowLog >= ZSTD_WINDOWLOG_MIN && windowLog <= ZSTD_WINDOWLOG_MAX);
    ASSUME(chainLog >= ZSTD_CHAINLOG_MIN && chainLog <= ZSTD_CHAINLOG_MAX);
    ASSUME(strategy >= ZSTD_STRATEGY_MIN && strategy <= ZSTD_STRATEGY_MAX);
    /* window invariant */
    ASSUME(lowLimit <= dictLimit && dictLimit <= curr && lowLimit >= ZSTD_WINDOW_START_INDEX);
    /* the chunk being started: ip at index curr, previous chunk ended at or below ZSTD_CURRENT_MAX */
    ASSUME(curr <= ZSTD_CURRENT_MAX);
    ASSUME(chunk <= ZSTD_CHUNKSIZE_MAX);
    ip = anchor + curr; iend = ip + chunk;
    w.base = anchor; w.dictBase = anchor2; w.nextSrc = ip;
    w.lowLimit = lowLimit; w.dictLimit = dictLimit; w.nbOverflowCorrections = nbCorr;

    cycleLog = ZSTD_cycleLog(chainLog, (ZSTD_strategy)strategy);
    maxDist = (U32)1 << windowLog;
    need = ZSTD_window_needOverflowCorrection(w, cycleLog, maxDist, loadedDictEnd, ip, iend);

    if (!need) {
        REACH("overflow: no correction needed");
        CLAIM((U64)curr + chunk <= ZSTD_CURRENT_MAX, "C15 overflow: without correction the chunk ends at or below ZSTD_CURRENT_MAX");
        CLAIM((U64)curr + chunk + ZSTD_CHUNKSIZE_MAX <= 0xFFFFFFFFULL, "C15 overflow: the next chunk cannot wrap the 32-bit index");
    } else {
        U32 correction, ncurr;
        const BYTE* const base0 = w.base; const BYTE* const dbase0 = w.dictBase;
        REACH("overflow: correction needed");
        /* real call pattern: a block-sized chunk (frameChunk passes <= blockSize <= 128 KB per call;
         * the trigger then implies curr is already close to ZSTD_CURRENT_MAX) */
        ASSUME(chunk <= ZSTD_BLOCKSIZE_MAX);
        correction = ZSTD_window_correctOverflow(&w, cycleLog, maxDist, ip);
        ncurr = curr - correction;
        CLAIM(correction > 0 && correction <= curr, "C15 overflow: correction is positive and does not underflow the current index");
        CLAIM((ncurr & ((1u << cycleLog) - 1)) == (curr & ((1u << cycleLog) - 1)), "C15 overflow: low cycle bits of every index are preserved");
        CLAIM(ncurr >= maxDist + ZSTD_WINDOW_START_INDEX, "C15 overflow: the full window stays referencable after the rebase");
        CLAIM((U32)(ip - w.base) == ncurr, "C15 overflow: base moved exactly by the correction");
        CLAIM(w.base == base0 + correction && w.dictBase == dbase0 + correction, "C15 overflow: prefix and extDict bases move together");
        CLAIM(w.lowLimit == (lowLimit < correction + ZSTD_WINDOW_START_INDEX ? ZSTD_WINDOW_START_INDEX : lowLimit - correction), "C15 overflow: lowLimit rebased with clamp at the start index");
        CLAIM(w.dictLimit == (dictLimit < correction + ZSTD_WINDOW_START_INDEX ? ZSTD_WINDOW_START_INDEX : dictLimit - correction), "C15 overflow: dictLimit rebased with clamp at the start index");
        CLAIM(w.lowLimit <= w.dictLimit && w.dictLimit <= ncurr, "C15 overflow: window invariant preserved");
        CLAIM(w.nbOverflowCorrections == nbCorr + 1, "C15 overflow: correction counted");
        CLAIM((U64)ncurr + ZSTD_CHUNKSIZE_MAX <= 0xFFFFFFFFULL && ncurr <= ZSTD_CURRENT_MAX, "C15 overflow: after correction the next chunk cannot wrap the 32-bit index");
        /* an index inside the window keeps its distance to the current position */
        ASSUME(someIndex <= curr && curr - someIndex <= maxDist);
        CLAIM(someIndex >= correction + ZSTD_WINDOW_START_INDEX, "C15 overflow: every in-window index survives the reduction (is not squashed to 0)");
        CLAIM(ncurr - (someIndex - correction) == curr - someIndex, "C15 overflow: match distances are unchanged by the rebase");
    }
}
