/*UNIT
{"props": ["C20"], "kind": "K5", "tier": "quick", "timeout": 600, "defines": ["ZSTD_VERIF_SEEKABLE_BUFF_SIZE=256"], "extra_src": ["stubs/mem_sampled.c"],
 "bounded": "staging buffers of ZSTD_seekable reduced from 128 KB to 256 bytes through a ZSTD_VERIF-guarded define (CBMC cannot carry the 2x128 KB aggregate); the loader's refill logic is parametric in that constant; number of frames, file content and I/O failures unbounded (loop contract)",
 "loop_contracts": true,
 "functions": ["ZSTD_seekable_loadSeekTable"],
 "floor": 40,
 "assumes": ["src.read / src.seek are stubs obeying the customFile interface: read fills at most n bytes of the given buffer (writability of the n bytes is an obligation), either may fail; file content is unconstrained",
             "malloc never fails in this unit (allocation failure is the C13 units' subject)"],
 "what": "seek-table loader on arbitrary file content: every buffer access inside the 128 KB staging buffer and the numFrames+1 entry table (loop contract, any number of frames), terminates (variant), and on success the table length is consistent with the declared size of the seek-table frame (no 32-bit wrap of numFrames*entrySize goes unnoticed)"}
*/
#include "verif.h"
#include "lib/common/error_private.c"
#include "lib/common/zstd_common.c"
#include "contrib/seekable_format/zstdseek_decompress.c"

/* ghost: what the reader stub delivered in the second read (start of the seek-table frame) */
static int  g_reads;
static U32  g_frameContentSize;
static U32  g_footerNumFrames;
static BYTE g_footerSfd;

vu8 nondet_vu8(void);
static int stub_read(void* opaque, void* buffer, size_t n)
{
    BYTE* const b = (BYTE*)buffer;
    (void)opaque;
    __CPROVER_assert(n == 0 || __CPROVER_w_ok(buffer, n), "C20 load: read request stays inside the staging buffer");
    /* refills inside the parsing loop: the unread tail was just moved to the front of the staging buffer,
     * the new bytes must land right behind it (otherwise table entries are parsed out of phase) */
    if (g_reads == 2) __CPROVER_assert(buffer == (void*)((BYTE*)zstd_verif_ghost.memmove_last_dst + zstd_verif_ghost.memmove_last_len),
                                       "C20 load: a refill appends directly behind the bytes carried over");
    /* deliver arbitrary file bytes: the first 16 are written explicitly (they are the ones parsed as
     * header/footer fields), the rest of the buffer is unconstrained already */
    if (n > 0) b[0] = nondet_vu8(); if (n > 1) b[1] = nondet_vu8(); if (n > 2) b[2] = nondet_vu8(); if (n > 3) b[3] = nondet_vu8();
    if (n > 4) b[4] = nondet_vu8(); if (n > 5) b[5] = nondet_vu8(); if (n > 6) b[6] = nondet_vu8(); if (n > 7) b[7] = nondet_vu8();
    if (n > 8) b[8] = nondet_vu8(); if (n > 9) b[9] = nondet_vu8(); if (n > 10) b[10] = nondet_vu8(); if (n > 11) b[11] = nondet_vu8();
    /* only the two reads before the parsing loop are recorded (the loop's frame does not contain the ghosts) */
    if (g_reads == 0) { g_reads = 1; if (n >= 9) { g_footerNumFrames = MEM_readLE32(b); g_footerSfd = b[4]; } }
    else if (g_reads == 1) { g_reads = 2; if (n >= 8) g_frameContentSize = MEM_readLE32(b + 4); }
    return nondet_vint();
}
static int stub_seek(void* opaque, long long offset, int origin)
{
    (void)opaque; (void)offset; (void)origin;
    return nondet_vint();
}

void harness(void)
{
    static ZSTD_seekable zs_obj;     /* typed object (field-sensitive in CBMC), content made arbitrary below */
    ZSTD_seekable* const zs = &zs_obj;
    size_t r;
    zs->src.opaque = NULL; zs->src.read = stub_read; zs->src.seek = stub_seek;
    zs->seekTable.entries = NULL; zs->seekTable.tableLen = 0;
    g_reads = 0;
    r = ZSTD_seekable_loadSeekTable(zs);
    if (!ZSTD_isError(r)) {
        U64 const sizePerEntry = 8 + ((g_footerSfd >> 7) ? 4 : 0);
        REACH("load: table accepted");
        CLAIM(r == 0, "C20 load: success is 0");
        CLAIM(zs->seekTable.entries != NULL, "C20 load: table allocated");
        CLAIM(zs->seekTable.tableLen == g_footerNumFrames, "C20 load: table length is the footer's frame count");
        CLAIM(zs->seekTable.checksumFlag == (g_footerSfd >> 7), "C20 load: checksum flag from the descriptor");
        CLAIM(zs->seekTable.entries[0].cOffset == 0 && zs->seekTable.entries[0].dOffset == 0, "C20 load: first frame starts at offset 0");
        /* from the format: Frame_Size = Number_Of_Frames * entry size + 9-byte footer */
        CLAIM((U64)g_frameContentSize == (U64)zs->seekTable.tableLen * sizePerEntry + ZSTD_seekTableFooterSize,
              "C20 load: a seek table whose frame count disagrees with the declared frame size (32-bit wrap) is rejected");
    } else {
        REACH("load: rejected");
    }
}
