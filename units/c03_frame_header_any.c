/*UNIT
{"props": ["C03","C09","C06","C10"], "kind": "K2", "tier": "quick", "timeout": 600,
 "extra_src": ["stubs/mem_sampled.c"],
 "functions": ["ZSTD_getFrameHeader_advanced","ZSTD_frameHeaderSize_internal","ZSTD_getFrameContentSize","ZSTD_isFrame","ZSTD_isSkippableFrame","ZSTD_getDictID_fromFrame","readSkippableFrameSize","ZSTD_readSkippableFrame","ZSTD_writeSkippableFrame"],
 "floor": 100,
 "assumes": ["mem_sampled shim: the skippable payload copy is abstracted (ranges checked, content not modelled)"],
 "what": "header/skippable-frame inspectors on ARBITRARY bytes of symbolic length (exact-size heap object): reads stay inside the input, results are 'complete', 'need more than you gave' or an error, decoded limits are bounded (window <= 2^31+7*2^28 unless single-segment, block <= 128 KB), no proper prefix of an accepted header is complete, skippable sizes never exceed the input or the output capacity"}
*/
#include "verif.h"
#include "lib/compress/zstd_compress.c"
#include "lib/decompress/zstd_ddict.c"
#include "lib/decompress/zstd_decompress.c"

void harness(void)
{
    IN(vsz, n); IN(vu32, format); IN(vsz, k); IN(vint, which); IN(vsz, cap); IN(vu32, variant);
    BYTE* src;
    ZSTD_frameHeader zfh;
    size_t r;
    ASSUME(n <= ((size_t)1 << 33));
    ASSUME(format == ZSTD_f_zstd1 || format == ZSTD_f_zstd1_magicless);
    src = (BYTE*)malloc(n);
    ASSUME(src != NULL);

    if (which == 0) {
        r = ZSTD_getFrameHeader_advanced(&zfh, src, n, (ZSTD_format_e)format);
        if (r == 0) {
            REACH("hdr-any: complete");
            if (zfh.frameType == ZSTD_skippableFrame) {
                REACH("hdr-any: skippable");
                CLAIM(n >= ZSTD_SKIPPABLEHEADERSIZE && format == ZSTD_f_zstd1, "C03 hdr: skippable header needs 8 bytes");
                CLAIM(zfh.frameContentSize <= 0xFFFFFFFFULL, "C03 hdr: skippable size is 32 bits");
            } else {
                CLAIM(zfh.frameType == ZSTD_frame, "C03 hdr: frame type is one of two");
                CLAIM(zfh.headerSize >= (format == ZSTD_f_zstd1 ? 6u : 2u) && zfh.headerSize <= ZSTD_FRAMEHEADERSIZE_MAX && zfh.headerSize <= n, "C03 hdr: header size within [min,18] and within the input");
                CLAIM(zfh.blockSizeMax <= ZSTD_BLOCKSIZE_MAX && zfh.blockSizeMax <= zfh.windowSize, "C03 hdr: block size bounded by 128 KB and by the window");
                CLAIM(zfh.windowSize <= (1ULL << ZSTD_WINDOWLOG_MAX) + 7 * (1ULL << (ZSTD_WINDOWLOG_MAX - 3)) || zfh.windowSize == zfh.frameContentSize, "C03 hdr: declared window bounded unless single-segment");
                CLAIM(zfh.checksumFlag <= 1, "C03 hdr: checksum flag is a bit");
                /* C09: no proper prefix of an accepted header is itself complete */
                ASSUME(k < zfh.headerSize);
                {   ZSTD_frameHeader z2;
                    size_t const r2 = ZSTD_getFrameHeader_advanced(&z2, src, k, (ZSTD_format_e)format);
                    CLAIM(r2 != 0, "C09 hdr: a proper prefix of a complete header is never reported complete");
                    CLAIM(ZSTD_isError(r2) || (r2 > k && r2 <= zfh.headerSize), "C09/C10 hdr: a prefix asks for more bytes, never more than the header has");
                }
            }
        } else if (!ZSTD_isError(r)) {
            REACH("hdr-any: need more");
            CLAIM(r > n && r <= ZSTD_FRAMEHEADERSIZE_MAX, "C03/C09 hdr: an incomplete header asks for more than was given, at most 18");
        } else {
            REACH("hdr-any: error");
        }
    } else if (which == 1) {
        unsigned long long const cs = ZSTD_getFrameContentSize(src, n);
        unsigned const id = ZSTD_getDictID_fromFrame(src, n);
        unsigned const isf = ZSTD_isFrame(src, n);
        size_t const fhs = ZSTD_frameHeaderSize(src, n);
        (void)id;
        CLAIM(isf <= 1, "C03 hdr: isFrame is boolean");
        if (n < 4) CLAIM(isf == 0 && cs == ZSTD_CONTENTSIZE_ERROR, "C09 hdr: fewer than 4 bytes are never a frame");
        CLAIM(ZSTD_isError(fhs) || (fhs >= 6 && fhs <= ZSTD_FRAMEHEADERSIZE_MAX), "C03 hdr: frameHeaderSize in [6,18] or error");
    } else if (which == 2) {
        BYTE* dst;
        unsigned mv = 77;
        ASSUME(cap <= ((size_t)1 << 33));
        dst = (BYTE*)malloc(cap); ASSUME(dst != NULL);
        r = readSkippableFrameSize(src, n);
        CLAIM(ZSTD_isError(r) || (r >= ZSTD_SKIPPABLEHEADERSIZE && r <= n), "C03/C06 skippable: frame size within [8, srcSize]");
        r = ZSTD_readSkippableFrame(dst, cap, &mv, src, n);
        if (!ZSTD_isError(r)) {
            REACH("hdr-any: skippable read");
            CLAIM(r <= cap && r + ZSTD_SKIPPABLEHEADERSIZE <= n, "C06 skippable: content fits the destination and the source");
            CLAIM(mv <= 15, "C03 skippable: magic variant in [0,15]");
        }
    } else {
        BYTE* dst;
        ASSUME(cap <= ((size_t)1 << 33));
        dst = (BYTE*)malloc(cap); ASSUME(dst != NULL);
        r = ZSTD_writeSkippableFrame(dst, cap, src, n, variant);
        if (!ZSTD_isError(r)) {
            REACH("hdr-any: skippable written");
            CLAIM(r == n + ZSTD_SKIPPABLEHEADERSIZE && r <= cap && variant <= 15, "C06 skippable: writer output is header + content and fits");
            CLAIM(readSkippableFrameSize(dst, r) == r, "C05 skippable: reader sees the size the writer wrote");
            CLAIM(ZSTD_isSkippableFrame(dst, r) == 1, "C05 skippable: written frame is recognised");
        } else {
            CLAIM(cap < n + ZSTD_SKIPPABLEHEADERSIZE || n > 0xFFFFFFFFu || variant > 15, "C06 skippable: writer refuses only for the documented reasons");
        }
    }
}
