/*UNIT
{"props": ["C06"], "kind": "K1", "tier": "quick", "timeout": 600,
 "enforce": ["ZSTD_compressBlock_splitBlock_internal"],
 "replace": ["ZSTD_deriveBlockSplits","ZSTD_deriveSeqStoreChunk","ZSTD_countSeqStoreLiteralsBytes","ZSTD_countSeqStoreMatchBytes","ZSTD_compressSeqStore_singleBlock"],
 "loop_contracts": true,
 "extra_src": ["stubs/mem_ranges.c"], "cbmc": ["--unwind", "16", "--sat-solver", "cadical"],
 "functions": ["ZSTD_compressBlock_splitBlock_internal"],
 "floor": 60,
 "assumes": ["callee contracts (assumed): ZSTD_deriveBlockSplits returns at most ZSTD_MAX_NB_BLOCK_SPLITS; ZSTD_compressSeqStore_singleBlock REQUIRES dst[0..dstCapacity) writable and returns an error or n <= dstCapacity; the seqStore helpers have no effect visible here",
             "source-side arithmetic (ip += srcBytes) is not constrained: only the destination discipline is the subject"],
 "what": "block splitter: for any number of partitions (loop contract with variant) every partition is written into what remains of the destination — the remaining capacity shrinks by exactly what was written, the writer is never handed a range reaching past dst+dstCapacity — and the result is an error or a size <= dstCapacity"}
*/
#include "verif.h"
#include "lib/compress/zstd_compress_internal.h"

static size_t ZSTD_deriveBlockSplits(ZSTD_CCtx* zc, U32 partitions[], U32 nbSeq)
__CPROVER_requires(zc != NULL && partitions != NULL)
__CPROVER_assigns(__CPROVER_object_upto(partitions, ZSTD_MAX_NB_BLOCK_SPLITS * sizeof(U32)))   /* the array is a member of the context: object_whole would havoc the whole context */
__CPROVER_ensures(__CPROVER_return_value <= ZSTD_MAX_NB_BLOCK_SPLITS)
;
static void ZSTD_deriveSeqStoreChunk(seqStore_t* resultSeqStore, const seqStore_t* originalSeqStore, size_t startIdx, size_t endIdx)
__CPROVER_requires(resultSeqStore != NULL && originalSeqStore != NULL)
__CPROVER_assigns(*resultSeqStore)
;
static size_t ZSTD_countSeqStoreLiteralsBytes(const seqStore_t* const seqStore)
__CPROVER_requires(seqStore != NULL)
__CPROVER_assigns()
;
static size_t ZSTD_countSeqStoreMatchBytes(const seqStore_t* const seqStore)
__CPROVER_requires(seqStore != NULL)
__CPROVER_assigns()
;
static size_t ZSTD_compressSeqStore_singleBlock(ZSTD_CCtx* zc, const seqStore_t* const seqStore, repcodes_t* const dRep, repcodes_t* const cRep,
                                                void* dst, size_t dstCapacity, const void* src, size_t srcSize, U32 lastBlock, U32 isPartition)
__CPROVER_requires(zc != NULL && seqStore != NULL && dRep != NULL && cRep != NULL)
__CPROVER_requires(dstCapacity == 0 || __CPROVER_w_ok(dst, dstCapacity))          /* the writer's precondition */
/* frame: the partition writer's effects on the context (it confirms/swaps the two compressed-block states) are abstracted away:
 * the splitter itself only reads prevCBlock->rep before the loop and writes it after */
__CPROVER_assigns(*dRep, *cRep, __CPROVER_object_whole(dst))
__CPROVER_ensures(ZSTD_isError(__CPROVER_return_value) || __CPROVER_return_value <= dstCapacity)
;
static size_t ZSTD_compressBlock_splitBlock_internal(ZSTD_CCtx* zc, void* dst, size_t dstCapacity, const void* src, size_t blockSize, U32 lastBlock, U32 nbSeq)
__CPROVER_requires(__CPROVER_is_fresh(zc, sizeof(ZSTD_CCtx)))
__CPROVER_requires(__CPROVER_is_fresh(zc->blockState.prevCBlock, sizeof(ZSTD_compressedBlockState_t)) && __CPROVER_is_fresh(zc->blockState.nextCBlock, sizeof(ZSTD_compressedBlockState_t)))
__CPROVER_requires(dstCapacity <= ((size_t)1 << 40) && __CPROVER_is_fresh(dst, dstCapacity))
__CPROVER_requires(blockSize <= ZSTD_BLOCKSIZE_MAX && __CPROVER_is_fresh(src, blockSize))
__CPROVER_assigns(__CPROVER_object_whole(zc), __CPROVER_object_whole(dst), __CPROVER_object_whole(zc->blockState.prevCBlock), __CPROVER_object_whole(zc->blockState.nextCBlock))
__CPROVER_ensures(ZSTD_isError(__CPROVER_return_value) || __CPROVER_return_value <= dstCapacity)
;
#include "lib/common/error_private.c"
#include "lib/common/zstd_common.c"
#include "lib/compress/zstd_compress.c"

void harness(void)
{
    ZSTD_CCtx* zc; void* dst; size_t cap; const void* src; size_t n; U32 last; U32 nbSeq;
    size_t const r = ZSTD_compressBlock_splitBlock_internal(zc, dst, cap, src, n, last, nbSeq);
    if (ZSTD_isError(r)) REACH("split: error"); else REACH("split: ok");
}
