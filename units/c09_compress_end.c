/*UNIT
{"props": ["C09","C05","C06"], "kind": "K1", "tier": "quick", "timeout": 900,
 "extra_src": ["stubs/xxh_stub.c"],
 "replace": ["ZSTD_compress_frameChunk"],
 "functions": ["ZSTD_compressEnd_public","ZSTD_compressContinue_internal","ZSTD_writeEpilogue","ZSTD_writeFrameHeader","ZSTD_window_update"],
 "floor": 150,
 "assumes": ["ZSTD_compress_frameChunk replaced by its contract (assumed): REQUIRES dst[0..cap) writable, returns an error or n <= cap, may move the stage from ongoing to ending",
             "XXH64 uninterpreted (digest recorded in a ghost)",
             "window invariant as in c02_window_update; LDM off; applied parameters valid (windowLog in range, format valid)"],
 "what": "end of a frame through the buffer-less API: for every capacity the result is an error or a size <= capacity and the epilogue is written inside dst; when a source size was pledged, success requires that exactly that many bytes were supplied; the frame ends with the last-block marker and, if enabled, the low 32 bits of the content checksum as the very last 4 bytes; the context returns to the 'created' stage"}
*/
#include "verif.h"
#include "lib/compress/zstd_compress_internal.h"

static size_t ZSTD_compress_frameChunk(ZSTD_CCtx* cctx, void* dst, size_t dstCapacity, const void* src, size_t srcSize, U32 lastFrameChunk)
__CPROVER_requires(cctx != NULL)
__CPROVER_requires(dstCapacity == 0 || __CPROVER_w_ok(dst, dstCapacity))
__CPROVER_requires(srcSize == 0 || __CPROVER_r_ok(src, srcSize))
__CPROVER_assigns(cctx->stage, cctx->isFirstBlock, cctx->xxhState, __CPROVER_object_whole(dst), ZSTD_VERIF_GHOST_FRAME)
__CPROVER_ensures(ZSTD_isError(__CPROVER_return_value) || __CPROVER_return_value <= dstCapacity)
__CPROVER_ensures(cctx->stage == __CPROVER_old(cctx->stage) || (lastFrameChunk && cctx->stage == ZSTDcs_ending))
;
#include "lib/common/error_private.c"
#include "lib/common/zstd_common.c"
#include "lib/compress/zstd_compress.c"

void harness(void)
{
    static ZSTD_CCtx cobj;
    ZSTD_CCtx* const c = &cobj;
    IN(vsz, cap); IN(vsz, n); IN(vint, stage); IN(vu64, pledgedPlusOne); IN(vu64, consumed); IN(vu32, windowLog); IN(vint, format);
    IN(vint, checksumFlag); IN(vint, contentSizeFlag); IN(vint, noDictID); IN(vu32, dictID);
    IN(vsz, S); IN(vsz, o_src); IN(vu32, low); IN(vu32, dictLimit); IN(vu32, next);
    BYTE* dst; BYTE* space; size_t r;
    ASSUME(cap <= ((size_t)1 << 32) && n <= ((size_t)1 << 30));
    ASSUME(stage >= ZSTDcs_created && stage <= ZSTDcs_ending);
    ASSUME(windowLog >= ZSTD_WINDOWLOG_ABSOLUTEMIN && windowLog <= ZSTD_WINDOWLOG_MAX);
    ASSUME(format == ZSTD_f_zstd1 || format == ZSTD_f_zstd1_magicless);
    ASSUME(consumed <= ((U64)1 << 62));
    /* a pledged size is recorded as size+1, 0 = none; content size flag needs a known size (ZSTD_compressBegin_internal) */
    ASSUME(!(contentSizeFlag && pledgedPlusOne == 0));
    dst = (BYTE*)malloc(cap); ASSUME(dst != NULL);
    ASSUME(S <= ((size_t)1 << 33)); space = (BYTE*)malloc(S); ASSUME(space != NULL);
    ASSUME(low >= ZSTD_WINDOW_START_INDEX && low <= dictLimit && dictLimit <= next && (size_t)next <= S);
    ASSUME(o_src <= S && n <= S - o_src && (size_t)next + n <= 0xFFFFFFFFu);
    c->stage = (ZSTD_compressionStage_e)stage; c->pledgedSrcSizePlusOne = pledgedPlusOne; c->consumedSrcSize = consumed; c->producedCSize = 0;
    c->appliedParams.cParams.windowLog = windowLog; c->appliedParams.format = (ZSTD_format_e)format;
    c->appliedParams.fParams.checksumFlag = checksumFlag; c->appliedParams.fParams.contentSizeFlag = contentSizeFlag; c->appliedParams.fParams.noDictIDFlag = noDictID;
    c->appliedParams.ldmParams.enableLdm = ZSTD_ps_disable; c->dictID = dictID;
    c->blockState.matchState.window.base = space; c->blockState.matchState.window.dictBase = space; c->blockState.matchState.window.nextSrc = space + next;
    c->blockState.matchState.window.lowLimit = low; c->blockState.matchState.window.dictLimit = dictLimit; c->blockState.matchState.forceNonContiguous = 0;

    r = ZSTD_compressEnd_public(c, dst, cap, space + o_src, n);
    if (ZSTD_isError(r)) { REACH("compressEnd: error"); return; }
    REACH("compressEnd: frame ended");
    CLAIM(r <= cap, "C06 compressEnd: the frame end fits the destination capacity");
    CLAIM(stage != ZSTDcs_created, "C09 compressEnd: ending without a begin is refused");
    CLAIM(pledgedPlusOne == 0 || consumed + n + 1 == pledgedPlusOne, "C09 compressEnd: with a pledged source size, success requires exactly that many bytes to have been supplied");
    CLAIM(c->stage == ZSTDcs_created, "C05 compressEnd: the context returns to the created stage");
    CLAIM(c->consumedSrcSize == consumed + n, "C09 compressEnd: consumed size accounts for this chunk");
    if (checksumFlag) {
        REACH("compressEnd: checksum written");
        CLAIM(r >= 4 && MEM_readLE32(dst + r - 4) == (U32)zstd_verif_ghost.xxh_last_digest, "C05 compressEnd: the last 4 bytes of the frame are the low 32 bits of the content checksum");
    }
}
