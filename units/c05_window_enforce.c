/*UNIT
{"props": ["C05","C08"], "kind": "K2", "tier": "quick", "timeout": 600, "replay": true,
 "functions": ["ZSTD_checkDictValidity","ZSTD_window_enforceMaxDist","ZSTD_getLowestMatchIndex","ZSTD_getLowestPrefixIndex"],
 "floor": 20,
 "assumes": ["window invariant lowLimit <= dictLimit <= blockStart index; loadedDictEnd <= blockStart index (dictionary precedes the input in index space)",
             "call pattern of ZSTD_compress_frameChunk: checkDictValidity(blockEnd) then enforceMaxDist(blockStart), maxDist = 1<<windowLog"],
 "what": "window enforcement: after the per-block calls, every index a match finder may use (>= ZSTD_getLowestMatchIndex / ZSTD_getLowestPrefixIndex) is within the declared window, or inside a dictionary whose last byte is still within the window"}
*/
#include "verif.h"
#include "lib/compress/zstd_compress.c"

void harness(void)
{
    IN(vu32, blockStart); IN(vu32, blockSize); IN(vu32, windowLog); IN(vu32, lowLimit); IN(vu32, dictLimit);
    IN(vu32, loadedDictEnd); IN(vu32, curr); IN(vu32, m); IN(vint, hasDms);
    ZSTD_matchState_t ms;
    ZSTD_matchState_t dms;
    BYTE* const space = (BYTE*)malloc((size_t)blockStart + blockSize);
    const BYTE *ip;
    U32 maxDist, lowest, lowestPrefix, lde;
    ASSUME(space != NULL);
    ASSUME(windowLog >= ZSTD_WINDOWLOG_MIN && windowLog <= ZSTD_WINDOWLOG_MAX);
    ASSUME(blockSize >= 1 && blockSize <= ZSTD_BLOCKSIZE_MAX);
    ASSUME(blockStart <= ZSTD_CURRENT_MAX);      /* guaranteed by overflow correction (C15 unit) */
    ASSUME(lowLimit >= ZSTD_WINDOW_START_INDEX && lowLimit <= dictLimit && dictLimit <= blockStart);
    ASSUME(loadedDictEnd <= blockStart);
    ms.window.base = space; ms.window.dictBase = space; ms.window.nextSrc = space + blockStart + blockSize;
    ms.window.lowLimit = lowLimit; ms.window.dictLimit = dictLimit;
    ms.loadedDictEnd = loadedDictEnd;
    ms.dictMatchState = hasDms ? &dms : NULL;
    ip = space + blockStart;
    maxDist = (U32)1 << windowLog;

    ZSTD_checkDictValidity(&ms.window, ip + blockSize, maxDist, &ms.loadedDictEnd, &ms.dictMatchState);
    ZSTD_window_enforceMaxDist(&ms.window, ip, maxDist, &ms.loadedDictEnd, &ms.dictMatchState);
    lde = ms.loadedDictEnd;

    CLAIM(ms.window.lowLimit >= lowLimit && ms.window.dictLimit >= dictLimit, "C05 window: limits only move forward");
    CLAIM(ms.window.lowLimit <= ms.window.dictLimit && ms.window.dictLimit <= blockStart, "C05 window: window invariant preserved");
    CLAIM(lde == 0 || lde == loadedDictEnd, "C08 window: dictionary end is kept or dropped, never altered");
    if (lde == 0) CLAIM(ms.dictMatchState == NULL || loadedDictEnd == 0, "C08 window: dropping the dictionary also detaches the dictionary match state");

    /* any position of the block, any candidate index the finders may use */
    ASSUME(curr >= blockStart && curr < blockStart + blockSize);
    lowest = ZSTD_getLowestMatchIndex(&ms, curr, windowLog);
    lowestPrefix = ZSTD_getLowestPrefixIndex(&ms, curr, windowLog);
    ASSUME(m < curr);
    if (m >= lowest) {
        if (lde == 0) {
            REACH("window: no dictionary in range");
            CLAIM(curr - m <= maxDist, "C05 window: without a valid dictionary no usable index is further back than the declared window");
        } else {
            REACH("window: dictionary still valid");
            CLAIM(curr - m <= maxDist || (m < lde && curr - (lde - 1) <= maxDist),
                  "C05/C08 window: an index beyond the window is inside the dictionary, whose last byte is still within the window");
            CLAIM(lde == ms.window.dictLimit, "C08 window: a dictionary is only used while the input is contiguous with it");
        }
    }
    if (m >= lowestPrefix) {
        CLAIM(curr - m <= maxDist || (lde != 0 && m < lde && curr - (lde - 1) <= maxDist), "C05 window: prefix-only lowest index obeys the same rule");
    }
    CLAIM(lowest >= ms.window.lowLimit && lowestPrefix >= ms.window.dictLimit, "C05 window: lowest indices never fall below the window limits");
}
