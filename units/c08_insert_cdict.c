/*UNIT
{"props": ["C08"], "kind": "K2", "tier": "quick", "timeout": 300, "cbmc": ["--unwind", "4"],
 "replace_calls": {"ZSTD_loadCEntropy": "stub_loadCEntropy", "ZSTD_loadDictionaryContent": "stub_loadContent"},
 "functions": ["ZSTD_compress_insertDictionary", "ZSTD_loadZstdDictionary", "ZSTD_reset_compressedBlockState"],
 "floor": 20,
 "assumes": ["ZSTD_loadCEntropy redirected to a stub returning an error or a header size in [20, dictSize] (what unit c08_load_centropy proves); ZSTD_loadDictionaryContent redirected to a stub that asserts and records the range it is given and returns an error or 0 (the match-finder table filling is not covered)"],
 "what": "compressor-side dictionary loading on ARBITRARY dictionary bytes of symbolic length, all three content-type modes: NULL or fewer than 8 bytes load nothing (an error if a full dictionary was demanded); raw-content mode and auto mode without the magic load the whole buffer as content and yield dictionary ID 0; a demanded full dictionary without the magic is refused; with the magic the ID returned is the little-endian word after it (0 if IDs are suppressed), the entropy header is parsed, and exactly the bytes after it are loaded as content; the previous-block state is reset first"}
*/
#include "verif.h"
#include "lib/compress/zstd_compress_internal.h"
#include "lib/common/error_private.c"
#include "lib/common/zstd_common.c"
#include "lib/compress/zstd_compress.c"

static const void* g_cStart; static size_t g_cSize; static int g_cCalls, g_eCalls, g_eErr, g_cErr; static size_t g_eSize;
size_t stub_loadCEntropy(ZSTD_compressedBlockState_t* bs, void* workspace, const void* const dict, size_t dictSize)
{
    (void)bs; (void)workspace; g_eCalls++;
    __CPROVER_assert(dictSize >= 8 && __CPROVER_r_ok(dict, dictSize), "C08 insert: the entropy parser gets the whole dictionary, at least magic and ID");
    g_eErr = nondet_vint() & 1;
    if (g_eErr) return ERROR(dictionary_corrupted);
    g_eSize = nondet_vsz(); __CPROVER_assume(g_eSize >= 20 && g_eSize <= dictSize);
    return g_eSize;
}
size_t stub_loadContent(ZSTD_matchState_t* ms, ldmState_t* ls, ZSTD_cwksp* ws, ZSTD_CCtx_params const* params, const void* src, size_t srcSize,
                        ZSTD_dictTableLoadMethod_e dtlm, ZSTD_tableFillPurpose_e tfp)
{ (void)ms; (void)ls; (void)ws; (void)params; (void)dtlm; (void)tfp; g_cCalls++; g_cStart = src; g_cSize = srcSize;
  __CPROVER_assert(srcSize == 0 || __CPROVER_r_ok(src, srcSize), "C08 insert: the content handed to the match finder lies inside the dictionary buffer");
  g_cErr = nondet_vint() & 1; return g_cErr ? ERROR(memory_allocation) : 0; }

void harness(void)
{
    static ZSTD_compressedBlockState_t bs; static ZSTD_matchState_t ms; static ZSTD_cwksp ws; static ZSTD_CCtx_params prm;
    IN(vsz, n); IN(vint, type); IN(vint, isNull); IN(vint, noID);
    BYTE* dict; size_t r; void* wk = malloc(HUF_WORKSPACE_SIZE);
    ASSUME(n <= ((size_t)1 << 32) && wk != NULL);
    ASSUME(type == ZSTD_dct_auto || type == ZSTD_dct_rawContent || type == ZSTD_dct_fullDict);
    dict = (isNull & 1) ? NULL : (BYTE*)malloc(n); ASSUME((isNull & 1) || dict != NULL);
    prm.fParams.noDictIDFlag = noID & 1;
    bs.rep[0] = 77; bs.entropy.fse.offcode_repeatMode = FSE_repeat_valid;
    g_cCalls = 0; g_eCalls = 0; g_eErr = 0; g_cErr = 0; g_eSize = 0; g_cStart = NULL; g_cSize = 0;
    r = ZSTD_compress_insertDictionary(&bs, &ms, NULL, &ws, &prm, dict, n, (ZSTD_dictContentType_e)type, ZSTD_dtlm_fast, ZSTD_tfp_forCCtx, wk);
    if (dict == NULL || n < 8) {
        REACH("cinsert: nothing to load");
        CLAIM(g_cCalls == 0 && g_eCalls == 0 && (type == ZSTD_dct_fullDict ? ZSTD_isError(r) : r == 0), "C08 insert: no dictionary (or fewer than 8 bytes) loads nothing; demanding a full dictionary is then an error");
        return;
    }
    CLAIM(bs.rep[0] == repStartValue[0] && bs.entropy.fse.offcode_repeatMode == FSE_repeat_none, "C08 insert: the previous-block state is reset before a dictionary is loaded");
    if (type == ZSTD_dct_rawContent || (MEM_readLE32(dict) != ZSTD_MAGIC_DICTIONARY && type == ZSTD_dct_auto)) {
        REACH("cinsert: raw content");
        CLAIM(g_eCalls == 0 && g_cCalls == 1 && g_cStart == (const void*)dict && g_cSize == n && (ZSTD_isError(r) ? g_cErr : r == 0), "C08 insert: raw content: the whole buffer is content, dictionary ID 0");
        return;
    }
    if (MEM_readLE32(dict) != ZSTD_MAGIC_DICTIONARY) { REACH("cinsert: full dictionary demanded, no magic"); CLAIM(ZSTD_isError(r) && g_cCalls == 0, "C08 insert: a demanded full dictionary without the magic is refused"); return; }
    CLAIM(g_eCalls == 1, "C08 insert: a structured dictionary has its entropy header parsed once");
    if (ZSTD_isError(r)) { REACH("cinsert: refused"); CLAIM(g_eErr || g_cErr, "C08 insert: a structured dictionary is refused only when its header or its content loading fails"); return; }
    REACH("cinsert: dictionary loaded");
    CLAIM(r == (size_t)((noID & 1) ? 0 : MEM_readLE32(dict + 4)), "C08 insert: the dictionary ID returned (and later written into frame headers) is the word after the magic, or 0 when IDs are suppressed");
    CLAIM(g_cCalls == 1 && g_cStart == (const void*)(dict + g_eSize) && g_cSize == n - g_eSize, "C08 insert: exactly the bytes after the entropy header are loaded as content");
}
