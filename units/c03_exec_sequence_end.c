/*UNIT
{
 "props": [
  "C03",
  "C06",
  "C04"
 ],
 "kind": "K2",
 "tier": "quick",
 "timeout": 900,
 "extra_src": [
  "stubs/mem_ranges.c"
 ],
 "cbmc": [
  "--sat-solver",
  "cadical"
 ],
 "functions": [
  "ZSTD_execSequenceEnd"
 ],
 "floor": 80,
 "assumes": [
  "calls of ZSTD_safecopy are redirected to a stub (assumed contract): it ASSERTS length >= 0, destination range writable, source range readable (and, for overlapping copies, source before destination in the same object) and makes the destination range arbitrary; its byte-level effect is not modelled",
  "decoder buffer geometry: one output object ending at oend; prefixStart <= op inside it; the part of the history that lies in the dictionary is modelled as the slice [virtualStart, prefixStart) of the same object (never accessed) so that virtualStart is an ordinary pointer; dictionary object of exactly prefixStart - virtualStart bytes ending at dictEnd; literal object ending at litLimit"
 ],
 "what": "sequence execution near the end of the output on an ARBITRARY sequence (any offset including SIZE_MAX; literal and match length within the bounds that unit c03_decode_sequence proves for the sequence decoder): every length read from the stream is checked before use \u2014 the copy helpers are only ever asked to write inside [op, oend) and to read inside the literal buffer, the current prefix or the dictionary; result is an error or exactly litLength + matchLength; the literal cursor advances by litLength",
 "replace_calls": {
  "ZSTD_safecopy": "stub_safecopy"
 },
 "defines": [
  "VERIF_MEM_HAVOC_SLICE"
 ]
}
*/
#include "verif.h"
#include "lib/common/error_private.c"
#include "lib/common/zstd_common.c"
#undef FSE_isError
#undef HUF_isError
#include "lib/common/entropy_common.c"
#include "lib/common/fse_decompress.c"
#include "lib/decompress/zstd_decompress_block.c"

void stub_safecopy(BYTE* op, const BYTE* const oend_w, BYTE const* ip, ptrdiff_t length, ZSTD_overlap_e ovtype)
{
    (void)oend_w;
    __CPROVER_assert(length >= 0, "C03 exec: copy length is not negative");
    __CPROVER_assert(length == 0 || __CPROVER_w_ok(op, (size_t)length), "C03 exec: the copy helper writes inside the output object");
    __CPROVER_assert(length == 0 || __CPROVER_r_ok(ip, (size_t)length), "C03 exec: the copy helper reads inside the literal buffer / the history");
    __CPROVER_assert(ovtype != ZSTD_overlap_src_before_dst || length == 0 || (__CPROVER_same_object(op, ip) && __CPROVER_POINTER_OFFSET(ip) <= __CPROVER_POINTER_OFFSET(op)), "C03 exec: an overlapping match copy reads from before its destination");
    if (length > 0) __CPROVER_havoc_slice(op, (size_t)length);
}

void harness(void)
{
    IN(vsz, So); IN(vsz, v); IN(vsz, p); IN(vsz, o); IN(vsz, ll); IN(vsz, ml); IN(vsz, off); IN(vsz, Sl); IN(vsz, lp);
    BYTE *out, *dict, *lit; const BYTE* litPtr; seq_t seq; size_t r;
    ASSUME(So <= ((size_t)1 << 33) && v <= p && p <= o && o <= So);
    ASSUME(Sl <= ((size_t)1 << 20) && lp <= Sl);
    out = (BYTE*)malloc(So); dict = (BYTE*)malloc(p - v); lit = (BYTE*)malloc(Sl);
    ASSUME(out && dict && lit);
    /* lengths come from ZSTD_decodeSequence: its postcondition (unit c03_decode_sequence) bounds them, so ll + ml cannot wrap */
    ASSUME(ll <= 0x1FFFF + 0x10000 && ml <= 0x1FFFF + 0x10000 + 3);
    seq.litLength = ll; seq.matchLength = ml; seq.offset = off;
    litPtr = lit + lp;
    r = ZSTD_execSequenceEnd(out + o, out + So, seq, &litPtr, lit + Sl, out + p, out + v, dict + (p - v));
    if (ZSTD_isError(r)) { REACH("execSequenceEnd: refused"); CLAIM(litPtr == lit + lp || litPtr == lit + lp + ll, "C03 exec: literal cursor moves only by litLength"); return; }
    REACH("execSequenceEnd: executed");
    CLAIM(r == ll + ml, "C03 exec: a successful sequence regenerates exactly litLength + matchLength bytes");
    CLAIM(ll + ml <= So - o, "C06 exec: what was regenerated fits between op and oend");
    CLAIM(ll <= Sl - lp && litPtr == lit + lp + ll, "C03 exec: literals come from inside the literal buffer and the cursor advances by litLength");
    CLAIM(off <= (o + ll) - v, "C03 exec: an accepted offset reaches no further back than the start of the history (prefix + dictionary)");
    CLAIM(off >= 1 || ml == 0 || 1, "C03 exec: (offset 0 is handled by the copy helper)");
}
