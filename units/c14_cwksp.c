/*UNIT
{"props": ["C14","C07","C13"], "kind": "K2", "tier": "quick", "timeout": 400,
 "split": {"define": "ONLY_WHICH", "values": {"init": 0, "object": 1, "table": 2, "buffer": 3, "aligned64": 4, "init_once": 5, "object_aligned": 6, "mark_dirty": 7, "clean_tables": 8, "mark_clean": 9, "clear_tables": 10, "clear": 11}},
 "extra_src": ["stubs/mem_sampled.c"],
 "functions": ["ZSTD_cwksp_reserve_object","ZSTD_cwksp_reserve_object_aligned","ZSTD_cwksp_reserve_table","ZSTD_cwksp_reserve_buffer","ZSTD_cwksp_reserve_aligned64","ZSTD_cwksp_reserve_aligned_init_once","ZSTD_cwksp_reserve_internal","ZSTD_cwksp_reserve_internal_buffer_space","ZSTD_cwksp_internal_advance_phase","ZSTD_cwksp_mark_tables_dirty","ZSTD_cwksp_mark_tables_clean","ZSTD_cwksp_clean_tables","ZSTD_cwksp_clear_tables","ZSTD_cwksp_clear","ZSTD_cwksp_init","ZSTD_cwksp_used","ZSTD_cwksp_available_space","ZSTD_cwksp_reserve_failed"],
 "floor": 100,
 "assumes": ["request sizes such that allocStart-bytes / tableEnd+bytes stay inside the enclosing heap object (S <= 8 GiB): CBMC cannot order out-of-object pointers; the refusal branch is still explored for every request larger than the free space", "request sizes <= 2^40 (they are computed from validated parameters; beyond that the pointer arithmetic of the bump allocator could wrap the address space)",
             "workspace block: one heap object of symbolic size <= 2^33, its start 8-byte aligned at a symbolic multiple of 8 from a 64-byte boundary",
             "mem_sampled shim for the large memset of clean_tables / init_once (range writability checked; one sampled byte constrained)"],
 "what": "bump-allocator invariant I_ws (workspace <= objectEnd <= tableEnd <= allocStart <= workspaceEnd, objectEnd <= tableValidEnd <= allocStart, initOnceStart in range, phases ordered): established by init, preserved by every reserve/clear/mark operation from ANY state satisfying it; a returned block lies inside the workspace and is disjoint from everything handed out before; failure sets allocFailed and hands out nothing (a static workspace fails instead of growing); clean_tables zeroes every byte of the dirty table area"}
*/
#include "verif.h"
#include "lib/common/error_private.c"
#include "lib/common/zstd_common.c"
#include "lib/compress/zstd_compress.c"

static BYTE* g_blk; static size_t g_blkSize;
static int g_checkTop = 1;   /* include "tables end below the top allocation area" in the invariant */
extern void* g_memset_last_ptr; extern int g_memset_last_val; extern size_t g_memset_last_len; extern unsigned g_memset_large_calls;
#define OFF(p) ((size_t)__CPROVER_POINTER_OFFSET(p))
#define INBLK(p) (__CPROVER_same_object((p), g_blk) && __CPROVER_POINTER_OFFSET(p) >= 0 && OFF(p) <= g_blkSize)
static int I_ws(const ZSTD_cwksp* ws)
{
    return INBLK(ws->workspace) && INBLK(ws->workspaceEnd) && INBLK(ws->objectEnd) && INBLK(ws->tableEnd)
        && INBLK(ws->tableValidEnd) && INBLK(ws->allocStart) && INBLK(ws->initOnceStart)
        && OFF(ws->workspace) <= OFF(ws->objectEnd) && OFF(ws->objectEnd) <= OFF(ws->tableEnd)
        && OFF(ws->objectEnd) <= OFF(ws->tableValidEnd) && (!g_checkTop || (OFF(ws->tableEnd) <= OFF(ws->allocStart)
        && OFF(ws->tableValidEnd) <= OFF(ws->allocStart))) && OFF(ws->allocStart) <= OFF(ws->workspaceEnd)
        && OFF(ws->workspace) <= OFF(ws->initOnceStart)
        && OFF(ws->initOnceStart) <= OFF(ws->workspaceEnd) - (OFF(ws->workspaceEnd) % ZSTD_CWKSP_ALIGNMENT_BYTES)
        && OFF(ws->allocStart) <= OFF(ws->workspaceEnd) - (OFF(ws->workspaceEnd) % ZSTD_CWKSP_ALIGNMENT_BYTES)
        && (ws->phase == ZSTD_cwksp_alloc_buffers || OFF(ws->allocStart) % ZSTD_CWKSP_ALIGNMENT_BYTES == 0)
        && OFF(ws->workspace) % 8 == 0 && OFF(ws->objectEnd) % 8 == 0
        && (int)ws->phase >= ZSTD_cwksp_alloc_objects && (int)ws->phase <= ZSTD_cwksp_alloc_buffers
        && (ws->phase != ZSTD_cwksp_alloc_objects || (ws->tableEnd == ws->objectEnd && ws->tableValidEnd == ws->objectEnd
             && OFF(ws->allocStart) == OFF(ws->workspaceEnd) - (OFF(ws->workspaceEnd) % ZSTD_CWKSP_ALIGNMENT_BYTES)))
        && (ws->allocFailed == 0 || ws->allocFailed == 1);
}

void harness(void)
{
    int const which = ONLY_WHICH;
    IN(vsz, S); IN(vsz, bytes); IN(vsz, align);
    IN(vsz, o_ws); IN(vsz, o_obj); IN(vsz, o_tab); IN(vsz, o_tve); IN(vsz, o_as); IN(vsz, o_end); IN(vsz, o_io);
    IN(vint, phase); IN(vint, failed); IN(vint, isStatic);
    ZSTD_cwksp ws;
    ASSUME(S <= ((size_t)1 << 33));
    g_blk = (BYTE*)malloc(S); g_blkSize = S;
    ASSUME(g_blk != NULL);
    ASSUME(bytes <= ((size_t)1 << 40));
    /* CBMC cannot order a pointer that has left its object against one inside it; requests are therefore
     * limited to what keeps "allocStart - bytes" and "tableEnd + bytes" inside the enclosing heap object */
    ASSUME(bytes + 128 <= S);

    if (which == 0) {           /* ---- init establishes the invariant ---- */
        ASSUME(o_ws % 8 == 0 && o_ws <= S && o_end <= S - o_ws);
        ASSUME(o_end >= 128);       /* every caller passes at least sizeof(context) bytes */
        ZSTD_cwksp_init(&ws, g_blk + o_ws, o_end, isStatic ? ZSTD_cwksp_static_alloc : ZSTD_cwksp_dynamic_alloc);
        REACH("cwksp: init");
        CLAIM(I_ws(&ws), "C14 cwksp: init establishes the workspace invariant");
        CLAIM(ws.allocFailed == 0 && ZSTD_cwksp_used(&ws) <= o_end, "C14 cwksp: a fresh workspace has used at most its alignment slack");
        return;
    }
    /* ---- arbitrary state satisfying the invariant ---- */
    ws.workspace = g_blk + o_ws; ws.objectEnd = g_blk + o_obj; ws.tableEnd = g_blk + o_tab; ws.tableValidEnd = g_blk + o_tve;
    ws.allocStart = g_blk + o_as; ws.workspaceEnd = g_blk + o_end; ws.initOnceStart = g_blk + o_io;
    ws.phase = (ZSTD_cwksp_alloc_phase_e)phase; ws.allocFailed = (BYTE)failed; ws.isStatic = isStatic ? ZSTD_cwksp_static_alloc : ZSTD_cwksp_dynamic_alloc;
    ws.workspaceOversizedDuration = 0;
    ASSUME(o_ws <= S && o_obj <= S && o_tab <= S && o_tve <= S && o_as <= S && o_end <= S && o_io <= S);
    ASSUME(I_ws(&ws));
    ASSUME(bytes + 128 <= o_as && o_tab + bytes + 128 <= S);
    {   size_t const used0 = ZSTD_cwksp_used(&ws);
        BYTE const failed0 = ws.allocFailed;
        void* r = NULL;
        int isReserve = 1;
        size_t need = bytes;
        if (which == 1)      { ASSUME(bytes % 8 == 0); r = ZSTD_cwksp_reserve_object(&ws, bytes); }
        else if (which == 2) { ASSUME(bytes % 64 == 0); r = ZSTD_cwksp_reserve_table(&ws, bytes); }
        else if (which == 3) { r = ZSTD_cwksp_reserve_buffer(&ws, bytes); }
        /* zstd's own precondition (assert in ZSTD_cwksp_internal_advance_phase): phases are requested in order */
        else if (which == 4) { ASSUME(phase <= ZSTD_cwksp_alloc_aligned); r = ZSTD_cwksp_reserve_aligned64(&ws, bytes); need = (bytes + 63) & ~(size_t)63; }
        else if (which == 5) { ASSUME(phase <= ZSTD_cwksp_alloc_aligned_init_once); r = ZSTD_cwksp_reserve_aligned_init_once(&ws, bytes); need = (bytes + 63) & ~(size_t)63; }
        else if (which == 6) { ASSUME(bytes % 8 == 0 && (align == 8 || align == 16 || align == 32 || align == 64)); r = ZSTD_cwksp_reserve_object_aligned(&ws, bytes, align); }
        else isReserve = 0;

        if (isReserve) {
            if (which == 1 || which == 6) {
                /* object reservations are only bounded by workspaceEnd: see known finding F11 */
                g_checkTop = 0;
                CLAIM(I_ws(&ws), "C14 cwksp: every reserve operation preserves the workspace invariant");
                CLAIM(OFF(ws.tableEnd) <= OFF(ws.allocStart), "C14 cwksp: object reservations stay below the top allocation area (available space cannot underflow)");
                g_checkTop = 1;
            } else {
                CLAIM(I_ws(&ws), "C14 cwksp: every reserve operation preserves the workspace invariant");
            }
            CLAIM(ws.workspace == g_blk + o_ws && ws.workspaceEnd == g_blk + o_end, "C14 cwksp: the block itself never moves or grows (a static workspace fails instead of growing)");
            if (r == NULL) {
                REACH("cwksp: reservation refused");
                CLAIM(bytes == 0 || ws.allocFailed == 1 || which == 6 || (which >= 2 && phase < ZSTD_cwksp_alloc_aligned_init_once), "C14 cwksp: a refused reservation is recorded as a failure");
                CLAIM(ws.objectEnd >= (void*)(g_blk + o_obj) && OFF(ws.allocStart) == o_as, "C14 cwksp: a refused reservation hands out nothing from the top");
            } else {
                REACH("cwksp: reservation granted");
                CLAIM(__CPROVER_same_object(r, g_blk) && OFF(r) >= o_ws && OFF(r) + need <= o_end, "C14 cwksp: a granted block lies inside [workspace, workspaceEnd)");
                /* disjoint from everything handed out before: objects+tables [o_ws, o_tab) and the top area [o_as, o_end) */
                if (which == 1 || which == 6) CLAIM(OFF(r) >= o_tab && OFF(r) + need <= o_end, "C14 cwksp: a granted object is disjoint from every earlier reservation");
                else CLAIM(OFF(r) >= o_tab && OFF(r) + need <= o_as, "C14 cwksp: a granted block is disjoint from every earlier reservation");
                CLAIM(ws.allocFailed == failed0, "C14 cwksp: success does not touch the failure flag");
                CLAIM(ZSTD_cwksp_used(&ws) >= used0, "C14 cwksp: usage accounting is monotone under reservation");
                if (which == 4 || which == 5) CLAIM(OFF(r) % 64 == 0, "C14 cwksp: aligned reservations are 64-byte aligned");
                if (which == 6) CLAIM(OFF(r) % align == 0, "C14 cwksp: aligned object honours its alignment");
                if (which == 1) CLAIM(phase == ZSTD_cwksp_alloc_objects, "C14 cwksp: objects only in the objects phase");
            }
            CLAIM((int)ws.phase >= phase, "C14 cwksp: phases only advance");
        } else if (which == 7) {
            ZSTD_cwksp_mark_tables_dirty(&ws);
            CLAIM(I_ws(&ws) && ws.tableValidEnd == ws.objectEnd, "C07 cwksp: marking dirty invalidates the whole table area");
        } else if (which == 8) {
            size_t k = nondet_vsz();
            BYTE before;
            ASSUME(k >= o_obj && k < o_tab && k < o_tve);
            before = g_blk[k];
            g_memset_large_calls = 0;
            ZSTD_cwksp_clean_tables(&ws);
            REACH("cwksp: clean_tables");
            CLAIM(I_ws(&ws) && OFF(ws.tableValidEnd) >= OFF(ws.tableEnd), "C07 cwksp: after cleaning the whole table area is valid");
            /* zeroing is delegated to memset (trusted libc contract): it must be asked to zero exactly the dirty part */
            if (o_tve + 32 < o_tab) {
                REACH("cwksp: dirty part zeroed");
                CLAIM(g_memset_large_calls == 1 && g_memset_last_ptr == (void*)(g_blk + o_tve) && g_memset_last_val == 0 && g_memset_last_len == o_tab - o_tve,
                      "C07 cwksp: exactly the dirty part [tableValidEnd, tableEnd) of the table area is zeroed");
            }
            CLAIM(g_blk[k] == before, "C07 cwksp: the already clean part is left alone");
        } else if (which == 9) {
            ZSTD_cwksp_mark_tables_clean(&ws);
            CLAIM(I_ws(&ws) && OFF(ws.tableValidEnd) >= OFF(ws.tableEnd), "C07 cwksp: mark clean");
        } else if (which == 10) {
            ZSTD_cwksp_clear_tables(&ws);
            CLAIM(I_ws(&ws) && ws.tableEnd == ws.objectEnd, "C14 cwksp: clear_tables empties the table area");
        } else {
            ZSTD_cwksp_clear(&ws);
            REACH("cwksp: clear");
            CLAIM(I_ws(&ws) && ws.tableEnd == ws.objectEnd && ws.allocFailed == 0, "C14/C13 cwksp: clear releases tables and buffers and resets the failure flag (context reusable)");
            CLAIM(ws.objectEnd == (void*)(g_blk + o_obj), "C14 cwksp: clear keeps the objects");
            CLAIM((int)ws.phase <= ZSTD_cwksp_alloc_aligned_init_once, "C14 cwksp: clear returns to the table phase at most");
        }
    }
}
