/*UNIT
{"props": ["C11"], "kind": "K2", "tier": "quick", "timeout": 600,
 "defines": ["ZSTD_MULTITHREAD"],
 "extra_src": ["stubs/mem_ranges.c"],
 "replace_calls": {"ZSTDMT_writeLastEmptyBlock": "stub_lastEmptyBlock"},
 "functions": ["ZSTDMT_createCompressionJob"],
 "floor": 40,
 "assumes": ["sequential obligation on the caller thread (job creation is only done by the thread that calls the API); POOL_tryAdd is the environment: it accepts or refuses the job nondeterministically; ZSTDMT_writeLastEmptyBlock is a stub",
             "job ring of 2^k slots, k <= 10 (the table is sized from nbWorkers <= 256: at most 2^9 in the library); job counters are 32-bit and restart at every frame; the unit assumes nextJobID <= 2^31 (beyond 2^32 - ring size the 'ring full' test `nextJobID > doneJobID + jobIDMask` wraps and reports a full ring although it is not: 2^32 jobs of >= 512 KB in one frame, noted as unreachable in practice)",
             "in-flight jobs are doneJobID .. nextJobID-1 (the invariant ZSTDMT_flushProduced maintains)"],
 "what": "job ring of multithreaded compression: when every slot holds an unfinished job the function creates nothing and changes nothing; otherwise the only descriptor written is slot nextJobID mod ring size, and no in-flight job (doneJobID <= j < nextJobID) lives in that slot, so a descriptor is never recycled under a worker; the new descriptor carries the job number, the source range just filled, 'last job' iff the frame ends, zeroed progress counters; the job counter advances iff the pool accepted the job, otherwise the prepared job is kept for a retry without being rebuilt; the prefix kept for the next job lies at the end of this job's source"}
*/
#include "verif.h"
#include "lib/common/error_private.c"
#include "lib/common/zstd_common.c"
#include "lib/compress/zstd_compress_internal.h"
#include "lib/compress/zstdmt_compress.h"
#include "lib/compress/zstdmt_compress.c"

static int g_accept, g_posted; static void* g_postedJob;
int POOL_tryAdd(POOL_ctx* ctx, POOL_function function, void* opaque)
{ (void)ctx; __CPROVER_assert(function == ZSTDMT_compressionJob, "C11 job: the worker entry point is posted"); g_posted++; g_postedJob = opaque; return g_accept; }
void stub_lastEmptyBlock(ZSTDMT_jobDescription* job) { __CPROVER_assert(job->lastJob == 1 && job->src.size == 0, "C11 job: only an empty last job is turned into a last empty block"); }

void harness(void)
{
    static ZSTDMT_CCtx mt;
    IN(vu32, k); IN(vu32, next); IN(vu32, done); IN(vsz, srcSize); IN(vint, endOp); IN(vint, ready); IN(vint, accept); IN(vu32, j); IN(vu32, other); IN(vsz, filled); IN(vsz, tps); IN(vint, csum);
    unsigned mask, slot; ZSTDMT_jobDescription* jobs; BYTE* inbuf; size_t r;
    ZSTDMT_jobDescription before;
    ASSUME(k <= 10); mask = (1u << k) - 1;
    ASSUME(done <= next && next - done <= mask + 1 && next <= 0x80000000u);     /* in-flight jobs fit the ring; job numbers far from the 32-bit wrap */
    ASSUME(endOp == ZSTD_e_continue || endOp == ZSTD_e_flush || endOp == ZSTD_e_end);
    ASSUME(srcSize <= filled && filled <= ((size_t)1 << 30) && tps <= ((size_t)1 << 30));
    ASSUME(srcSize > 0 || endOp == ZSTD_e_end || next == 0);
    jobs = (ZSTDMT_jobDescription*)malloc(((size_t)mask + 1) * sizeof(ZSTDMT_jobDescription)); ASSUME(jobs != NULL);
    inbuf = (BYTE*)malloc(filled); ASSUME(inbuf != NULL);
    mt.jobs = jobs; mt.jobIDMask = mask; mt.nextJobID = next; mt.doneJobID = done; mt.jobReady = ready & 1;
    mt.inBuff.buffer.start = inbuf; mt.inBuff.buffer.capacity = filled; mt.inBuff.filled = filled; mt.inBuff.prefix.start = NULL; mt.inBuff.prefix.size = 0;
    mt.targetPrefixSize = tps; mt.roundBuff.pos = 0; mt.frameEnded = 0; mt.params.fParams.checksumFlag = csum & 1;
    g_accept = accept & 1; g_posted = 0; g_postedJob = NULL;
    slot = next & mask;
    ASSUME(other <= mask && other != slot); before = jobs[other];                 /* any OTHER slot */
    ASSUME(j >= done && j < next);                                                /* any in-flight job (when there is one) */

    r = ZSTDMT_createCompressionJob(&mt, srcSize, (ZSTD_EndDirective)endOp);
    CLAIM(r == 0, "C11 job: job creation itself cannot fail");
    CLAIM((j & mask) != slot || next - done == mask + 1, "C11 job: unless the ring is full, no in-flight job lives in the slot about to be written");
    CLAIM(jobs[other].jobID == before.jobID && jobs[other].src.start == before.src.start && jobs[other].src.size == before.src.size
          && jobs[other].consumed == before.consumed && jobs[other].cSize == before.cSize && jobs[other].dstFlushed == before.dstFlushed && jobs[other].lastJob == before.lastJob,
          "C11 job: no other slot of the ring is touched");
    if (next - done == mask + 1) {
        REACH("job: ring full");
        CLAIM(g_posted == 0 && mt.nextJobID == next && mt.jobReady == (unsigned)(ready & 1) && mt.inBuff.filled == filled && mt.roundBuff.pos == 0,
              "C11 job: with every slot in use nothing is created and nothing changes");
        return;
    }
    if (!(ready & 1)) {
        REACH("job: prepared");
        CLAIM(jobs[slot].jobID == next && jobs[slot].src.start == inbuf && jobs[slot].src.size == srcSize, "C11 job: the descriptor names the job and the source range just filled");
        CLAIM(jobs[slot].consumed == 0 && jobs[slot].cSize == 0 && jobs[slot].dstFlushed == 0, "C11 job: progress counters start at zero");
        CLAIM(jobs[slot].lastJob == (unsigned)(endOp == ZSTD_e_end) && jobs[slot].firstJob == (unsigned)(next == 0), "C11 job: first/last flags follow the job number and the end directive");
        CLAIM(mt.roundBuff.pos == srcSize && mt.inBuff.filled == 0, "C11 job: the round buffer advances by the job's source, the input buffer is handed over");
        if (endOp != ZSTD_e_end) {
            CLAIM(mt.inBuff.prefix.size == (srcSize < tps ? srcSize : tps) && (const BYTE*)mt.inBuff.prefix.start == inbuf + srcSize - mt.inBuff.prefix.size,
                  "C11 job: the prefix kept for the next job is the tail of this job's source");
        } else {
            CLAIM(mt.frameEnded == 1 && mt.inBuff.prefix.size == 0, "C11 job: ending the frame keeps no prefix and marks the frame ended");
        }
    }
    if (srcSize == 0 && next > 0 && !(ready & 1)) {
        REACH("job: last empty block");
        CLAIM(g_posted == 0 && mt.nextJobID == next + 1, "C11 job: an empty last job is finished on the spot");
        return;
    }
    CLAIM(g_posted == 1 && g_postedJob == (void*)&jobs[slot], "C11 job: exactly the prepared descriptor is posted, once");
    if (accept & 1) { REACH("job: accepted"); CLAIM(mt.nextJobID == next + 1 && mt.jobReady == 0, "C11 job: an accepted job advances the job counter"); }
    else { REACH("job: refused by the pool"); CLAIM(mt.nextJobID == next && mt.jobReady == 1, "C11 job: a refused job is kept ready for a retry, the counter does not move"); }
}
