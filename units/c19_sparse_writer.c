/*UNIT
{"props": ["C19"], "kind": "K5", "tier": "quick", "timeout": 600,
 "bounded": "buffers of at most 47 bytes (5 machine words + tail), every content, every pending skip; all three loops unwound completely (unwinding assertions on). The loop contracts written for the unbounded proof (hooks in fileio_asyncio.c, macros ZSTD_VERIF_SPARSE_*) are not used: goto-instrument --dfcc havocs the function's `static const` locals (segmentSizeT, maskT) at every loop head, which makes the unchanged code fail",
 "cbmc": ["--unwind", "10", "--unwindset", "AIO_fwriteSparse.1:3,AIO_fwriteSparse.0:7"],
 "functions": ["AIO_fwriteSparse","AIO_fwriteSparseEnd"],
 "floor": 80,
 "assumes": ["fwrite / fseeko are stubs: a successful fwrite(ptr,size,n) advances the ghost file position by size*n and must be given a readable range, a successful seek advances it by the offset; failures end the program (EXM_THROW -> exit), as in the real tool",
             "buffer 8-byte aligned (malloc'ed), pending skip at most 1 GiB + 1 MiB",
             "only the sparse writer is under contract: source removal order, artefact removal, no-clobber checks and the exit status of fileio.c are NOT covered (the property is therefore claimed narrowly)"],
 "what": "sparse-file writer: for any buffer content and size the file position plus the pending skip advances by exactly the buffer size, every byte that is skipped rather than written is a zero byte (ghost byte index), reads stay inside the buffer; with sparse mode off the buffer is written in one piece; the final step turns a pending skip into a seek plus one explicit zero byte, so the file ends exactly where the data ends"}
*/
#include "verif.h"
#include "lib/common/error_private.c"
#include "lib/common/zstd_common.c"
#include "programs/fileio_asyncio.c"

/* ---- I/O stubs ---- */
size_t fwrite(const void* ptr, size_t size, size_t n, FILE* f)
{
    (void)f;
    __CPROVER_assert(size * n == 0 || __CPROVER_r_ok(ptr, size * n), "C19 sparse: data handed to fwrite lies inside the caller's buffer");
    if (nondet_vint()) return n ? n - 1 : 0;          /* short write: the caller exits */
    zstd_verif_ghost.io_pos += size * n;
    {   const char* const k = (const char*)zstd_verif_ghost.range_start + zstd_verif_ghost.io_k;     /* range_start = the buffer under proof */
        if (zstd_verif_ghost.range_start != NULL && __CPROVER_same_object(ptr, k)
            && __CPROVER_POINTER_OFFSET(ptr) <= __CPROVER_POINTER_OFFSET(k) && (size_t)(__CPROVER_POINTER_OFFSET(k) - __CPROVER_POINTER_OFFSET(ptr)) < size * n)
            zstd_verif_ghost.io_covered = 1;
    }
    return n;
}
int fseeko(FILE* f, off_t off, int whence)
{
    (void)f;
    __CPROVER_assert(whence == SEEK_CUR && off >= 0, "C19 sparse: only forward relative seeks");
    if (nondet_vint()) return -1;
    zstd_verif_ghost.io_pos += (unsigned long long)off;
    return 0;
}
int fseek(FILE* f, long off, int whence) { return fseeko(f, off, whence); }
int fprintf(FILE* f, const char* fmt, ...) { (void)f; (void)fmt; return 0; }
void exit(int c) { (void)c; __CPROVER_assume(0); }

void harness(void)
{
    IN(vsz, n); IN(vu32, skips); IN(vint, sparse); IN(vint, testMode); IN(vsz, k); IN(vu64, pos0);
    FIO_prefs_t prefs; FILE* const file = (FILE*)malloc(1); size_t* buf; unsigned out;
    ASSUME(file != NULL);
    ASSUME(n <= 47 && skips <= (1u << 30) + (1u << 20));
    buf = (size_t*)malloc(n ? n : 1); ASSUME(buf != NULL);
    ASSUME(k < n);
    ASSUME(sparse >= 0 && sparse <= 2 && (testMode == 0 || testMode == 1));   /* values the CLI sets */
    prefs.sparseFileSupport = sparse; prefs.testMode = testMode;
    zstd_verif_ghost.io_pos = pos0; zstd_verif_ghost.io_k = k; zstd_verif_ghost.io_covered = 0; zstd_verif_ghost.range_start = buf;
    ASSUME(pos0 <= ((unsigned long long)1 << 60));

    out = AIO_fwriteSparse(file, buf, n, &prefs, skips);
    REACH("sparse: returned");
    if (testMode) { CLAIM(out == 0 && zstd_verif_ghost.io_pos == pos0, "C19 sparse: test mode writes nothing"); return; }
    if (!sparse) { REACH("sparse: plain write"); CLAIM(out == 0 && zstd_verif_ghost.io_pos == pos0 + n && zstd_verif_ghost.io_covered, "C19 sparse: with sparse mode off the whole buffer is written"); return; }
    REACH("sparse: sparse write");
    CLAIM(zstd_verif_ghost.io_pos + out == pos0 + skips + n, "C19 sparse: file position plus pending skip advances by exactly the buffer size");
    CLAIM(zstd_verif_ghost.io_covered || ((const unsigned char*)buf)[k] == 0, "C19 sparse: every byte that is not written is a zero byte");
    /* end of file: the pending skip becomes a seek and one explicit zero */
    {   unsigned long long const before = zstd_verif_ghost.io_pos;
        AIO_fwriteSparseEnd(&prefs, file, out);
        CLAIM(zstd_verif_ghost.io_pos == before + out, "C19 sparse: the final step places the end of file exactly after the pending zeros (seek + one explicit zero byte)");
    }
}
