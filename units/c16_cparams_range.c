/*UNIT
{"props": ["C16"], "kind": "K2", "tier": "quick", "timeout": 600, "replay": true,
 "functions": ["ZSTD_getCParams_internal","ZSTD_adjustCParams_internal","ZSTD_adjustCParams","ZSTD_clampCParams","ZSTD_checkCParams","ZSTD_dictAndWindowLog","ZSTD_getCParamsFromCCtxParams","ZSTD_overrideCParams","ZSTD_getCParamRowSize"],
 "floor": 30,
 "assumes": ["dictSize <= 2^62 (no object that large exists; beyond it dictSize+windowSize wraps in ZSTD_dictAndWindowLog)"],
 "what": "level -> cParams tables and the adjustment never produce out-of-range values: for every int level, every 64-bit size hint, dictSize <= 2^62, every mode; clamp => valid; adjust maps valid to valid; checkCParams <=> all seven within advertised bounds"}
*/
#include "verif.h"
#include "lib/compress/zstd_compress.c"

static int in_bounds(ZSTD_cParameter p, unsigned v)
{
    ZSTD_bounds const b = ZSTD_cParam_getBounds(p);
    return !ZSTD_isError(b.error) && (int)v >= b.lowerBound && (int)v <= b.upperBound;
}
static int all_in_bounds(ZSTD_compressionParameters c)
{
    return in_bounds(ZSTD_c_windowLog, c.windowLog) && in_bounds(ZSTD_c_chainLog, c.chainLog) && in_bounds(ZSTD_c_hashLog, c.hashLog)
        && in_bounds(ZSTD_c_searchLog, c.searchLog) && in_bounds(ZSTD_c_minMatch, c.minMatch) && in_bounds(ZSTD_c_targetLength, c.targetLength)
        && in_bounds(ZSTD_c_strategy, (unsigned)c.strategy);
}

void harness(void)
{
    IN(vint, which); IN(vint, level); IN(vu64, srcSize); IN(vsz, dictSize); IN(vint, mode); IN(vint, rowmf);
    IN(vu32, wl); IN(vu32, cl); IN(vu32, hl); IN(vu32, sl); IN(vu32, mm); IN(vu32, tl); IN(vint, st);
    ZSTD_compressionParameters in, out;
    in.windowLog = wl; in.chainLog = cl; in.hashLog = hl; in.searchLog = sl; in.minMatch = mm; in.targetLength = tl; in.strategy = (ZSTD_strategy)st;
    ASSUME(dictSize <= ((size_t)1 << 62));
    ASSUME(mode >= ZSTD_cpm_noAttachDict && mode <= ZSTD_cpm_unknown);
    ASSUME(rowmf >= ZSTD_ps_auto && rowmf <= ZSTD_ps_disable);

    if (which == 0) {          /* level tables + adjustment */
        out = ZSTD_getCParams_internal(level, srcSize, dictSize, (ZSTD_cParamMode_e)mode);
        REACH("cparams_range: getCParams_internal");
        CLAIM(ZSTD_checkCParams(out) == 0, "C16 range: level->cParams tables and adjustment stay inside the advertised bounds");
        CLAIM(all_in_bounds(out), "C16 range: every field of the selected cParams is inside its bounds");
    } else if (which == 1) {   /* checkCParams is exactly 'all seven in bounds' */
        size_t const r = ZSTD_checkCParams(in);
        CLAIM((r == 0) == all_in_bounds(in), "C16 range: checkCParams accepts exactly the advertised ranges");
        if (r == 0) REACH("cparams_range: valid cParams exist");
    } else if (which == 2) {   /* clamp => valid, identity on valid */
        out = ZSTD_clampCParams(in);
        CLAIM(ZSTD_checkCParams(out) == 0, "C16 range: clampCParams yields valid cParams");
        if (ZSTD_checkCParams(in) == 0) {
            CLAIM(out.windowLog == in.windowLog && out.chainLog == in.chainLog && out.hashLog == in.hashLog && out.searchLog == in.searchLog
               && out.minMatch == in.minMatch && out.targetLength == in.targetLength && out.strategy == in.strategy, "C16 range: clamp is the identity on valid cParams");
        }
    } else if (which == 3) {   /* adjust maps valid to valid */
        ASSUME(ZSTD_checkCParams(in) == 0);
        out = ZSTD_adjustCParams_internal(in, srcSize, dictSize, (ZSTD_cParamMode_e)mode, (ZSTD_paramSwitch_e)rowmf);
        REACH("cparams_range: adjust");
        CLAIM(ZSTD_checkCParams(out) == 0, "C16 range: adjustCParams_internal maps valid cParams to valid cParams");
        CLAIM(out.windowLog >= ZSTD_WINDOWLOG_ABSOLUTEMIN && out.windowLog <= in.windowLog + 0u || out.windowLog == ZSTD_WINDOWLOG_ABSOLUTEMIN, "C16 range: adjustment never enlarges the window");
        CLAIM(out.strategy == in.strategy && out.searchLog == in.searchLog && out.minMatch == in.minMatch && out.targetLength == in.targetLength, "C16 range: adjustment only touches the three table logs");
    } else if (which == 4) {   /* public adjust: any input */
        out = ZSTD_adjustCParams(in, srcSize, dictSize);
        CLAIM(ZSTD_checkCParams(out) == 0, "C16 range: ZSTD_adjustCParams yields valid cParams for arbitrary input");
    } else {                   /* the path used by every compression start */
        ZSTD_CCtx_params P;    /* arbitrary, but with fields as the setters leave them */
        P.compressionLevel = level;
        P.cParams = in;
        ASSUME((wl == 0 || in_bounds(ZSTD_c_windowLog, wl)) && (cl == 0 || in_bounds(ZSTD_c_chainLog, cl)) && (hl == 0 || in_bounds(ZSTD_c_hashLog, hl))
            && (sl == 0 || in_bounds(ZSTD_c_searchLog, sl)) && (mm == 0 || in_bounds(ZSTD_c_minMatch, mm)) && in_bounds(ZSTD_c_targetLength, tl)
            && (st == 0 || in_bounds(ZSTD_c_strategy, (unsigned)st)));
        ASSUME(P.srcSizeHint >= 0);
        ASSUME(P.useRowMatchFinder >= ZSTD_ps_auto && P.useRowMatchFinder <= ZSTD_ps_disable);
        out = ZSTD_getCParamsFromCCtxParams(&P, srcSize, dictSize, (ZSTD_cParamMode_e)mode);
        REACH("cparams_range: getCParamsFromCCtxParams");
        CLAIM(ZSTD_checkCParams(out) == 0, "C16 range: parameters applied at compression start are always valid");
        if (wl != 0 && !(P.ldmParams.enableLdm == ZSTD_ps_enable && 0)) CLAIM(out.windowLog <= wl || out.windowLog == ZSTD_WINDOWLOG_ABSOLUTEMIN, "C16 range: an explicit windowLog is never exceeded");
    }
}
