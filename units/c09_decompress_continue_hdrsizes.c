/*UNIT
{
 "props": [
  "C09"
 ],
 "kind": "K2",
 "tier": "quick",
 "timeout": 600,
 "split": {
  "define": "ONLY_HDR",
  "values": {
   "zstd1_6": 6,
   "zstd1_7": 7,
   "zstd1_8": 8,
   "zstd1_9": 9,
   "zstd1_10": 10,
   "zstd1_11": 11,
   "zstd1_12": 12,
   "zstd1_13": 13,
   "zstd1_14": 14,
   "zstd1_15": 15,
   "zstd1_16": 16,
   "zstd1_17": 17,
   "zstd1_18": 18,
   "magicless_2": 34,
   "magicless_3": 35,
   "magicless_4": 36,
   "magicless_5": 37,
   "magicless_6": 38,
   "magicless_7": 39,
   "magicless_8": 40,
   "magicless_9": 41,
   "magicless_10": 42,
   "magicless_11": 43,
   "magicless_12": 44,
   "magicless_13": 45,
   "magicless_14": 46
  }
 },
 "defines": [
  "ZSTD_DECODER_INTERNAL_BUFFER=64",
  "VERIF_MEM_PRECISE64",
  "ONLY_STAGE=1"
 ],
 "extra_src": [
  "stubs/xxh_stub.c",
  "stubs/mem_ranges.c"
 ],
 "functions": [
  "ZSTD_decompressContinue",
  "ZSTD_decodeFrameHeader",
  "ZSTD_getFrameHeader_advanced"
 ],
 "floor": 200,
 "assumes": [
  "same harness and assumptions as c09_decompress_continue, stage ZSTDds_decodeFrameHeader only; one proof run per (format, total header size): the header bytes are copied into the context's staging buffer at an offset that is then a constant (with a symbolic offset the run does not finish: thorough unit c09_decompress_continue_hdr)"
 ],
 "what": "buffer-less decoder, stage 'decode frame header', for every header size of both formats: the remaining header bytes are staged inside the staging buffer, the complete header is parsed, checksum validation is switched on exactly when the frame has a checksum and checking is not disabled, the next thing expected is the first block header; a header that does not parse or names another dictionary is refused"
}
*/
#include "c09_decompress_continue.c"
