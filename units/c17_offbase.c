/*UNIT
{"props": ["C17","C01"], "kind": "K2", "tier": "quick", "timeout": 300, "replay": true,
 "functions": ["ZSTD_finalizeOffBase","ZSTD_updateRep","ZSTD_resolveRepcodeToRawOffset","ZSTD_newRep"],
 "floor": 5,
 "what": "repcode reconstruction from raw offsets is the inverse of the decoder's repcode resolution (format document semantics typed in): for every raw offset >= 1, every history with entries >= 1 and both ll0 values, the chosen offBase denotes exactly the raw offset, and the updated history's head is that offset"}
*/
#include "verif.h"
#include "lib/compress/zstd_compress.c"

/* doc/zstd_compression_format.md, "Repeat Offsets": what a decoder regenerates for an offset value */
static U32 doc_decode(U32 offBase, const U32 rep[3], U32 ll0)
{
    if (offBase > 3) return offBase - 3;
    {   U32 const code = offBase - 1 + ll0;   /* 0..3 */
        return code == 0 ? rep[0] : code == 1 ? rep[1] : code == 2 ? rep[2] : rep[0] - 1;
    }
}

void harness(void)
{
    IN(vu32, raw); IN(vu32, r0); IN(vu32, r1); IN(vu32, r2); IN(vu32, ll0);
    U32 rep[3], rep2[3];
    U32 offBase;
    ASSUME(raw >= 1 && raw <= 0xFFFFFFFFu - ZSTD_REP_NUM);
    ASSUME(r0 >= 1 && r1 >= 1 && r2 >= 1);
    ASSUME(ll0 <= 1);
    rep[0] = r0; rep[1] = r1; rep[2] = r2;
    offBase = ZSTD_finalizeOffBase(raw, rep, ll0);
    CLAIM(offBase >= 1, "C17 offbase: offBase is never 0");
    if (offBase <= 3) REACH("offbase: repcode chosen"); else REACH("offbase: raw offset kept");
    CLAIM(doc_decode(offBase, rep, ll0) == raw, "C17 offbase: the chosen code denotes exactly the raw offset under the decoder's rules");
    if (offBase <= 3) CLAIM(ZSTD_resolveRepcodeToRawOffset(rep, offBase, ll0) == raw, "C17/C01 offbase: resolveRepcodeToRawOffset agrees with the decoder's rules");
    rep2[0] = r0; rep2[1] = r1; rep2[2] = r2;
    ZSTD_updateRep(rep2, offBase, ll0);
    CLAIM(rep2[0] == raw, "C17/C01 offbase: after the update the newest history entry is the offset used");
    CLAIM(rep2[0] >= 1 && rep2[1] >= 1 && rep2[2] >= 1, "C17 offbase: history entries stay >= 1");
    /* history update is a rotation of the old entries (format document) */
    {   U32 const code = offBase > 3 ? 9 : offBase - 1 + ll0;
        if (code == 0) CLAIM(rep2[1] == r1 && rep2[2] == r2, "C01 offbase: repeat of the newest offset leaves the history unchanged");
        else if (code == 1) CLAIM(rep2[1] == r0 && rep2[2] == r2, "C01 offbase: second entry swaps to the front");
        else CLAIM(rep2[1] == r0 && rep2[2] == r1, "C01 offbase: otherwise the history shifts down by one");
    }
}
