/*UNIT
{"props": ["C02","C15","C07"], "kind": "K2", "tier": "quick", "timeout": 600, "replay": true,
 "functions": ["ZSTD_window_update","ZSTD_window_init","ZSTD_window_clear","ZSTD_window_isEmpty","ZSTD_window_hasExtDict"],
 "floor": 30,
 "assumes": ["window invariant on entry: lowLimit <= dictLimit <= nextSrc - base < 2^32 (index space modelled by one heap object; the new segment is any range of the same object)",
             "the previous extDict segment lies at dictBase + [lowLimit, dictLimit) inside the object"],
 "what": "history continuity across calls: a segment that starts where the previous one ended (and no forced break) extends the prefix and changes nothing else; any other segment turns the previous prefix into the external-dictionary segment with exactly its old indices (or drops it if shorter than 8 bytes), re-bases so that indices keep increasing, and an input overlapping the old segment shrinks it so that no stale byte stays referencable; the window invariant is preserved"}
*/
#include "verif.h"
#include "lib/compress/zstd_compress.c"

void harness(void)
{
    IN(vsz, S); IN(vsz, o_base); IN(vu32, low); IN(vu32, dictLimit); IN(vu32, next); IN(vsz, o_dbase);
    IN(vsz, o_src); IN(vsz, n); IN(vint, force);
    ZSTD_window_t w; BYTE* space; const BYTE* src; U32 contiguous;
    ASSUME(S <= ((size_t)1 << 34));
    space = (BYTE*)malloc(S); ASSUME(space != NULL);
    ASSUME(low >= ZSTD_WINDOW_START_INDEX && low <= dictLimit && dictLimit <= next);
    ASSUME(o_base <= S && (size_t)next <= S - o_base);                 /* prefix [base+dictLimit, base+next) inside */
    ASSUME(o_dbase <= S && (size_t)dictLimit <= S - o_dbase);           /* extDict [dictBase+low, dictBase+dictLimit) inside */
    ASSUME(o_src <= S && n <= S - o_src && n <= ((size_t)1 << 31));
    ASSUME((size_t)next + n <= 0xFFFFFFFFu);                            /* guaranteed by overflow correction (C15 units) */
    w.base = space + o_base; w.dictBase = space + o_dbase; w.nextSrc = w.base + next;
    w.lowLimit = low; w.dictLimit = dictLimit; w.nbOverflowCorrections = 0;
    src = space + o_src;

    contiguous = ZSTD_window_update(&w, src, n, force);

    if (n == 0) {
        REACH("window: empty segment");
        CLAIM(contiguous == 1 && w.base == space + o_base && w.lowLimit == low && w.dictLimit == dictLimit && w.nextSrc == space + o_base + next, "C02 window: an empty segment changes nothing");
        return;
    }
    CLAIM(w.nextSrc == src + n, "C02 window: the window now ends at the end of the new segment");
    /* nextSrc - base == next + n in both cases (see the base claims below); stated without subtracting a base
     * pointer that may lie before its object */
    CLAIM(w.lowLimit <= w.dictLimit && (size_t)w.dictLimit <= (size_t)next + n, "C02/C15 window: window invariant preserved");
    if (src == space + o_base + next && !force) {
        REACH("window: contiguous");
        CLAIM(contiguous == 1, "C02 window: a segment starting where the last one ended is contiguous");
        CLAIM(w.base == space + o_base && w.dictBase == space + o_dbase && w.dictLimit == dictLimit, "C02 window: a contiguous segment keeps bases and the prefix start");
    } else {
        REACH("window: new segment");
        CLAIM(contiguous == 0, "C02 window: any other segment (or a forced break) is reported non-contiguous");
        CLAIM(w.dictBase == space + o_base, "C02 window: the old prefix becomes the external-dictionary segment (same bytes, same indices)");
        CLAIM(w.dictLimit == next, "C02 window: the new prefix starts at the index where the old one ended (indices keep increasing)");
        CLAIM(w.base + next == src, "C02 window: the new base maps that index onto the first byte of the new segment");
    }
    /* whatever happened: the external-dictionary segment that remains referencable does not overlap the new input
     * (its bytes may have been overwritten by the caller) */
    if (w.lowLimit < w.dictLimit) {
        const BYTE* const dStart = w.dictBase + w.lowLimit; const BYTE* const dEnd = w.dictBase + w.dictLimit;
        REACH("window: extDict kept");
        CLAIM(!(src < dEnd && dStart < src + n) || (w.dictBase == space + o_dbase && contiguous == 1 && 0), "C02 window: the external-dictionary segment kept never overlaps the new input");
        CLAIM(w.dictLimit - w.lowLimit >= HASH_READ_SIZE || contiguous == 1 || (src < w.dictBase + w.dictLimit), "C02 window: a too small external segment is dropped");
    }
}
