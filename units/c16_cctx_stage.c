/*UNIT
{"props": ["C16","C09"], "kind": "K2", "tier": "quick", "timeout": 600, "replay": true,
 "defines": ["ZSTD_MULTITHREAD"],
 "functions": ["ZSTD_CCtx_setParameter","ZSTD_isUpdateAuthorized","ZSTD_CCtx_reset","ZSTD_CCtxParams_reset","ZSTD_CCtxParams_init","ZSTD_CCtx_setPledgedSrcSize","ZSTD_CCtx_setCParams","ZSTD_CCtx_setParams","ZSTD_CCtx_setFParams","ZSTD_clearAllDicts","ZSTD_checkCParams"],
 "floor": 50,
 "assumes": ["localDict.dictBuffer and localDict.cdict are NULL (their release is covered by the C13 units)"],
 "what": "stage gating, reset-to-documented-defaults, pledged size and all-or-nothing cParams setters on a full-size ZSTD_CCtx with arbitrary prior content"}
*/
#include "verif.h"
#include "lib/compress/zstd_compress.c"

/* parameters that zstd.h documents as changeable during compression (MT mode): */
static int doc_authorized(int p)
{
    return p == ZSTD_c_compressionLevel || p == ZSTD_c_hashLog || p == ZSTD_c_chainLog || p == ZSTD_c_searchLog
        || p == ZSTD_c_minMatch || p == ZSTD_c_targetLength || p == ZSTD_c_strategy;
}

void harness(void)
{
    ZSTD_CCtx* const c = (ZSTD_CCtx*)malloc(sizeof(ZSTD_CCtx));
    ZSTD_CCtx_params P0;
    IN(vint, which); IN(vint, param); IN(vint, value); IN(vint, stage_in); IN(vsz, static_in);
    IN(vint, directive); IN(vu64, pledged); IN(vsz, gi); IN(vint, changed_in); IN(vint, param2);
    ASSUME(c != NULL);
    ASSUME(stage_in >= zcss_init && stage_in <= zcss_flush);
    c->streamStage = (ZSTD_cStreamStage)stage_in;
    c->staticSize = static_in;
    c->cParamsChanged = changed_in;
    c->localDict.dictBuffer = NULL; c->localDict.cdict = NULL;
    memcpy(&P0, &c->requestedParams, sizeof(P0));
    ASSUME(gi < sizeof(P0));
    U64 const pl0 = c->pledgedSrcSizePlusOne;

    if (which == 0) {                       /* ---- ZSTD_CCtx_setParameter ---- */
        ZSTD_CCtx_params Pm;                /* what the params-level setter does on the same state */
        size_t rm, r;
        memcpy(&Pm, &P0, sizeof(Pm));
        rm = ZSTD_CCtxParams_setParameter(&Pm, (ZSTD_cParameter)param, value);
        r = ZSTD_CCtx_setParameter(c, (ZSTD_cParameter)param, value);
        if (stage_in != zcss_init && !doc_authorized(param)) {
            REACH("cctx: mid-frame, not authorised");
            CLAIM(ZSTD_isError(r), "C16 cctx: parameters that may not change mid-frame are refused mid-frame");
        }
        if (param == ZSTD_c_nbWorkers && value != 0 && static_in != 0) {
            CLAIM(ZSTD_isError(r), "C16 cctx: static context refuses worker threads");
        }
        if (ZSTD_isError(r)) {
            REACH("cctx: rejected");
            CLAIM(((const BYTE*)&c->requestedParams)[gi] == ((const BYTE*)&P0)[gi], "C16 cctx: a rejected call changes no parameter");
            CLAIM(c->streamStage == (ZSTD_cStreamStage)stage_in && c->pledgedSrcSizePlusOne == pl0, "C16 cctx: a rejected call changes no session state");
        } else {
            REACH("cctx: accepted");
            CLAIM(!ZSTD_isError(rm) && r == rm, "C16 cctx: context setter accepts exactly what the params setter accepts");
            CLAIM(((const BYTE*)&c->requestedParams)[gi] == ((const BYTE*)&Pm)[gi], "C16 cctx: context setter stores what the params setter stores");
            if (stage_in != zcss_init) { REACH("cctx: mid-frame update"); CLAIM(c->cParamsChanged == 1, "C16 cctx: mid-frame update is flagged for the next job"); }
        }
    } else if (which == 1) {                /* ---- ZSTD_CCtx_reset ---- */
        size_t const r = ZSTD_CCtx_reset(c, (ZSTD_ResetDirective)directive);
        if (directive == ZSTD_reset_parameters || directive == ZSTD_reset_session_and_parameters) {
            if (ZSTD_isError(r)) {
                REACH("cctx: parameter reset refused");
                CLAIM(directive == ZSTD_reset_parameters && stage_in != zcss_init, "C16 cctx: parameter reset refused only mid-frame");
                CLAIM(((const BYTE*)&c->requestedParams)[gi] == ((const BYTE*)&P0)[gi], "C16 cctx: refused reset changes nothing");
            } else {
                int v = 77;
                size_t const g = ZSTD_CCtx_getParameter(c, (ZSTD_cParameter)param, &v);
                REACH("cctx: parameters reset");
                if (g == 0) {
                    /* documented defaults (zstd.h): level ZSTD_CLEVEL_DEFAULT, contentSizeFlag 1, dictIDFlag 1, everything else 0 */
                    int const want = param == ZSTD_c_compressionLevel ? 3 : param == ZSTD_c_contentSizeFlag ? 1 : param == ZSTD_c_dictIDFlag ? 1 : 0;
                    REACH("cctx: default read back");
                    CLAIM(v == want, "C16 cctx: parameter reset restores every documented default");
                }
                CLAIM(c->cdict == NULL && c->prefixDict.dict == NULL && c->localDict.dict == NULL && c->localDict.cdict == NULL, "C16 cctx: parameter reset drops dictionaries");
                CLAIM(c->streamStage == zcss_init, "C16 cctx: init stage after reset");
            }
        }
        if (directive == ZSTD_reset_session_only) {
            REACH("cctx: session reset");
            CLAIM(r == 0 && c->streamStage == zcss_init && c->pledgedSrcSizePlusOne == 0, "C16/C09 cctx: session reset forgets the pledged size");
            CLAIM(((const BYTE*)&c->requestedParams)[gi] == ((const BYTE*)&P0)[gi], "C16 cctx: session reset keeps every parameter (sticky)");
        }
    } else if (which == 2) {                /* ---- pledged size ---- */
        size_t const r = ZSTD_CCtx_setPledgedSrcSize(c, pledged);
        if (ZSTD_isError(r)) { CLAIM(stage_in != zcss_init && c->pledgedSrcSizePlusOne == pl0, "C09 cctx: pledged size refused only mid-frame, nothing changed"); }
        else { REACH("cctx: pledged"); CLAIM(stage_in == zcss_init && c->pledgedSrcSizePlusOne == pledged + 1, "C09 cctx: pledged size recorded exactly"); }
    } else {                                /* ---- ZSTD_CCtx_setParams: all or nothing ---- */
        ZSTD_parameters zp;                 /* arbitrary */
        size_t const r = ZSTD_CCtx_setParams(c, zp);
        if (ZSTD_isError(r)) {
            REACH("cctx: setParams rejected");
            /* cParams all-or-nothing: an invalid cParams set changes nothing at all */
            if (ZSTD_isError(ZSTD_checkCParams(zp.cParams)))
                CLAIM(((const BYTE*)&c->requestedParams)[gi] == ((const BYTE*)&P0)[gi], "C16 cctx: setParams with invalid cParams changes nothing");
        } else {
            REACH("cctx: setParams accepted");
            CLAIM(c->requestedParams.cParams.windowLog == zp.cParams.windowLog && c->requestedParams.cParams.strategy == zp.cParams.strategy
               && c->requestedParams.cParams.hashLog == zp.cParams.hashLog && c->requestedParams.cParams.chainLog == zp.cParams.chainLog
               && c->requestedParams.cParams.searchLog == zp.cParams.searchLog && c->requestedParams.cParams.minMatch == zp.cParams.minMatch
               && c->requestedParams.cParams.targetLength == zp.cParams.targetLength, "C16 cctx: setParams stores all seven cParams");
            CLAIM(c->requestedParams.fParams.contentSizeFlag == (zp.fParams.contentSizeFlag != 0) && c->requestedParams.fParams.checksumFlag == (zp.fParams.checksumFlag != 0)
               && c->requestedParams.fParams.noDictIDFlag == (zp.fParams.noDictIDFlag != 0), "C16 cctx: setParams stores the frame parameters");
        }
    }
}
