/*UNIT
{"props": ["C20"], "kind": "K1", "tier": "quick", "timeout": 600,
 "loop_contracts": true,
 "functions": ["ZSTD_seekTable_offsetToFrameIndex"],
 "floor": 20,
 "assumes": ["seek table data invariant (established by ZSTD_seekable_loadSeekTable): entries has tableLen+1 elements, entries[0].dOffset == 0, tableLen <= ZSTD_SEEKABLE_MAXFRAMES"],
 "what": "seek-table binary search meets its specification for tables of any length (loop contract: invariant + variant, unbounded): result r has entries[r].dOffset <= pos < entries[r+1].dOffset, or r == tableLen when pos is at/after the end"}
*/
#include "verif.h"
#include "contrib/seekable_format/zstdseek_decompress.c"

void harness(void)
{
    IN(vint, which); IN(vsz, tableLen); IN(vu64, pos); IN(vu32, frameIndex);
    ZSTD_seekTable st;
    ASSUME(tableLen <= ZSTD_SEEKABLE_MAXFRAMES);
    st.tableLen = tableLen;
    st.entries = (seekEntry_t*)malloc(sizeof(seekEntry_t) * (tableLen + 1));
    ASSUME(st.entries != NULL);
    ASSUME(st.entries[0].dOffset == 0);

    if (which == 0) {
        unsigned const r = ZSTD_seekTable_offsetToFrameIndex(&st, pos);
        CLAIM(r <= tableLen, "C20 seek: frame index within [0, numFrames]");
        if (pos >= st.entries[tableLen].dOffset) {
            REACH("seek: at or after end");
            CLAIM(r == tableLen, "C20 seek: a position at or after the end maps to numFrames");
        } else {
            REACH("seek: inside");
            CLAIM(r < tableLen, "C20 seek: a position before the end maps to a real frame");
            CLAIM(st.entries[r].dOffset <= pos && pos < st.entries[r + 1].dOffset, "C20 seek: the frame found contains the position");
        }
    }
}
