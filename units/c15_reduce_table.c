/*UNIT
{"props": ["C15"], "kind": "K1", "tier": "quick", "timeout": 600,
 "loop_contracts": true,
 "functions": ["ZSTD_reduceTable_internal","ZSTD_reduceTable","ZSTD_reduceTable_btlazy2"],
 "floor": 40,
 "assumes": ["table size is a multiple of 16 below 2^31 (zstd's own asserts; all hash/chain tables are powers of two >= 64)"],
 "what": "index reduction after an overflow correction, for tables of any size (loop contracts with variants on both loops): every cell becomes 0 if it is below reducer + start index, else old - reducer, and the bt unsorted mark is preserved when asked to; all accesses stay inside the table"}
*/
#include "verif.h"
#include "lib/common/error_private.c"
#include "lib/common/zstd_common.c"
#include "lib/compress/zstd_compress.c"

void harness(void)
{
    IN(vu32, size); IN(vu32, reducer); IN(vint, preserve); IN(vsz, k);
    U32* table; U32 old, want;
    ASSUME(size >= 16 && size < (1u << 31) && (size & 15) == 0);
    table = (U32*)malloc((size_t)size * sizeof(U32)); ASSUME(table != NULL);
    ASSUME(k < size);
    ASSUME(reducer <= 0xFFFFFFFFu - ZSTD_WINDOW_START_INDEX);     /* a correction never exceeds the current index (c15_overflow) */
    old = table[k];
    want = (preserve && old == ZSTD_DUBT_UNSORTED_MARK) ? ZSTD_DUBT_UNSORTED_MARK
         : (old < reducer + ZSTD_WINDOW_START_INDEX) ? 0 : old - reducer;
    zstd_verif_ghost.cell_idx = k; zstd_verif_ghost.cell_old = old; zstd_verif_ghost.cell_new = want;
    if (preserve) ZSTD_reduceTable_btlazy2(table, size, reducer); else ZSTD_reduceTable(table, size, reducer);
    REACH("reduce: done");
    CLAIM(table[k] == want, "C15 reduce: every stored index is rebased by the correction, or squashed to 0 if it fell out of range (unsorted mark preserved for btlazy2)");
    if (old >= reducer + ZSTD_WINDOW_START_INDEX && !(preserve && old == ZSTD_DUBT_UNSORTED_MARK)) { REACH("reduce: index survives"); CLAIM(table[k] >= ZSTD_WINDOW_START_INDEX, "C15 reduce: a surviving index stays a valid index"); }
}
