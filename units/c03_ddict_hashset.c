/*UNIT
{"props": ["C03","C08","C13"], "kind": "K1", "tier": "quick", "timeout": 600,
 "loop_contracts": true,
 "cbmc": ["--memory-leak-check"],
 "extra_src": ["stubs/mem_sampled.c"],
 "functions": ["ZSTD_DDictHashSet_getIndex","ZSTD_DDictHashSet_emplaceDDict","ZSTD_DDictHashSet_getDDict","ZSTD_DDictHashSet_expand","ZSTD_DDictHashSet_addDDict","ZSTD_createDDictHashSet","ZSTD_freeDDictHashSet","ZSTD_customCalloc","ZSTD_customMalloc","ZSTD_customFree"],
 "floor": 60,
 "assumes": ["ZSTD_getDictID_fromDDict is uninterpreted here (0 for NULL, arbitrary otherwise): table entries are opaque handles", "XXH64 uninterpreted (arbitrary hash)",
             "hash-set data invariant: table size is a power of two in [64, 2^20], count < size (the 3/4 load factor keeps at least one empty slot; termination of the probe relies on it and is not proved)",
             "allocator may fail at any call; --memory-leak-check at harness end"],
 "what": "multi-dictionary lookup table: every probe index stays inside the table (loop contracts, any table size), insertion/lookup/expansion are memory safe, expansion under allocation failure keeps the old table and leaks nothing"}
*/
#include "verif.h"
#include "lib/common/error_private.c"
#include "lib/common/zstd_common.c"
/* zstd_ddict.c is deliberately not included: dictionary handles are opaque in this unit */
unsigned ZSTD_getDictID_fromDDict(const ZSTD_DDict* ddict);
#include "lib/decompress/zstd_decompress.c"

vu32 nondet_vu32(void);
unsigned ZSTD_getDictID_fromDDict(const ZSTD_DDict* ddict) { if (ddict == NULL) return 0; return nondet_vu32(); }
size_t ZSTD_freeDDict(ZSTD_DDict* d) { (void)d; return 0; }
size_t ZSTD_sizeof_DDict(const ZSTD_DDict* d) { (void)d; return 0; }
unsigned long long ZSTD_XXH64(const void* p, size_t n, unsigned long long seed) { (void)p; (void)n; (void)seed; return nondet_vu64(); }

static void* fail_alloc(void* opaque, size_t size) { (void)opaque; if (nondet_vint()) return NULL; return malloc(size); }
static void  fail_free(void* opaque, void* p) { (void)opaque; free(p); }

void harness(void)
{
    IN(vint, which); IN(vsz, tsize); IN(vsz, count); IN(vu32, dictID);
    ZSTD_customMem const cm = { fail_alloc, fail_free, NULL };
    ZSTD_DDictHashSet hs;
    static int handle;                      /* an opaque non-NULL dictionary handle */
    const ZSTD_DDict* const dd = (const ZSTD_DDict*)(const void*)&handle;
    ASSUME(tsize >= 64 && tsize <= ((size_t)1 << 20) && (tsize & (tsize - 1)) == 0);
    ASSUME(count < tsize);
    hs.ddictPtrTable = (const ZSTD_DDict**)malloc(tsize * sizeof(ZSTD_DDict*));
    ASSUME(hs.ddictPtrTable != NULL);
    hs.ddictPtrTableSize = tsize; hs.ddictPtrCount = count;

    if (which == 0) {
        size_t const r = ZSTD_DDictHashSet_emplaceDDict(&hs, dd);
        REACH("hashset: emplace returned");
        CLAIM(r == 0 && hs.ddictPtrCount <= count + 1, "C03 hashset: insertion into a non-full table succeeds");
        free((void*)hs.ddictPtrTable);
    } else if (which == 1) {
        const ZSTD_DDict* const r = ZSTD_DDictHashSet_getDDict(&hs, dictID);
        (void)r;
        REACH("hashset: lookup returned");
        free((void*)hs.ddictPtrTable);
    } else if (which == 2) {
        size_t const r = ZSTD_DDictHashSet_expand(&hs, cm);
        if (ZSTD_isError(r)) { REACH("hashset: expand failed"); CLAIM(hs.ddictPtrTableSize == tsize && hs.ddictPtrCount == count, "C13 hashset: failed expansion leaves the set as it was"); }
        else { REACH("hashset: expanded"); CLAIM(hs.ddictPtrTableSize == 2 * tsize && hs.ddictPtrCount <= tsize, "C03 hashset: expansion doubles the table and keeps count <= old size"); }
        free((void*)hs.ddictPtrTable);
    } else {
        ZSTD_DDictHashSet* const n = ZSTD_createDDictHashSet(cm);
        free((void*)hs.ddictPtrTable);
        if (n) { REACH("hashset: created"); CLAIM(n->ddictPtrTable != NULL && n->ddictPtrTableSize == 64 && n->ddictPtrCount == 0, "C13 hashset: created set is fully built");
                 (void)ZSTD_DDictHashSet_addDDict(n, dd, cm); ZSTD_freeDDictHashSet(n, cm); }
        else REACH("hashset: creation failed");
    }
}
