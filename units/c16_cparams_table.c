/*UNIT
{"props": ["C16"], "kind": "K2", "tier": "quick", "timeout": 600, "replay": true,
 "defines": ["ZSTD_MULTITHREAD"],
 "functions": ["ZSTD_cParam_getBounds","ZSTD_CCtxParams_setParameter","ZSTD_CCtxParams_getParameter","ZSTD_cParam_clampBounds"],
 "floor": 50,
 "what": "set/get/bounds table of ZSTD_CCtx_params over the entire (parameter id x int value) domain, arbitrary prior state: rejected call changes nothing; accepted value reads back inside the advertised bounds (or 0=default); in-range values are accepted and read back unchanged up to the documented normalisations; other parameters untouched"}
*/
#include "verif.h"
#include "lib/compress/zstd_compress.c"

void harness(void)
{
    ZSTD_CCtx_params P0, P;
    IN(vint, param);
    IN(vint, value);
    IN(vint, param2);
    IN(vsz, gi);
    ZSTD_bounds b;
    size_t r;

    memcpy(&P, &P0, sizeof(P));
    b = ZSTD_cParam_getBounds((ZSTD_cParameter)param);
    r = ZSTD_CCtxParams_setParameter(&P, (ZSTD_cParameter)param, value);

    if (ZSTD_isError(b.error)) {
        int v;
        REACH("cparams: unknown parameter id");
        CLAIM(ZSTD_isError(r), "C16 cparams: a parameter without bounds cannot be set");
        CLAIM(ZSTD_isError(ZSTD_CCtxParams_getParameter(&P, (ZSTD_cParameter)param, &v)), "C16 cparams: a parameter without bounds cannot be read");
    } else {
        CLAIM(b.lowerBound <= b.upperBound, "C16 cparams: bounds are ordered");
    }

    if (ZSTD_isError(r)) {
        REACH("cparams: rejected");
        ASSUME(gi < sizeof(P));
        CLAIM(((const BYTE*)&P)[gi] == ((const BYTE*)&P0)[gi], "C16 cparams: a rejected call changes nothing");
        if (!ZSTD_isError(b.error)) {
            CLAIM(value < b.lowerBound || value > b.upperBound, "C16 cparams: values inside the advertised bounds are accepted");
        }
    } else {
        int v = 0x5a5a5a5a;
        size_t const g = ZSTD_CCtxParams_getParameter(&P, (ZSTD_cParameter)param, &v);
        REACH("cparams: accepted");
        CLAIM(!ZSTD_isError(b.error), "C16 cparams: accepted parameter has bounds");
        CLAIM(g == 0, "C16 cparams: accepted parameter is readable");
        CLAIM((v >= b.lowerBound && v <= b.upperBound) || v == 0, "C16 cparams: stored value is inside the advertised bounds (or 0 = default)");
        if (value >= b.lowerBound && value <= b.upperBound) {
            int want = value;
            REACH("cparams: accepted in-range");
            /* documented normalisations (zstd.h): level 0 means default level; jobSize has a
             * minimum non-zero value; targetCBlockSize below its minimum is raised */
            if (param == ZSTD_c_compressionLevel && value == 0) want = ZSTD_CLEVEL_DEFAULT;
            if (param == ZSTD_c_jobSize && value != 0 && value < ZSTDMT_JOBSIZE_MIN) want = ZSTDMT_JOBSIZE_MIN;
            CLAIM(v == want, "C16 cparams: in-range value reads back unchanged (or as the documented normalised value)");
        } else {
            REACH("cparams: accepted out-of-range (clamped / boolean / 0=default)");
        }
    }

    /* frame: every other parameter reads back exactly as before */
    if (param2 != param) {
        int a = 1, c = 2;
        size_t const ra = ZSTD_CCtxParams_getParameter(&P0, (ZSTD_cParameter)param2, &a);
        size_t const rc = ZSTD_CCtxParams_getParameter(&P,  (ZSTD_cParameter)param2, &c);
        CLAIM(ra == rc, "C16 cparams: readability of other parameters unchanged");
        if (ra == 0) {
            REACH("cparams: other parameter compared");
            CLAIM(a == c, "C16 cparams: setting one parameter leaves every other parameter unchanged");
        }
    }
}
