/*UNIT
{"props": ["C18"], "kind": "K2", "tier": "quick", "timeout": 300,
 "functions": ["FASTCOVER_checkParameters"],
 "floor": 1,
 "what": "fastcover parameter validation: accepted parameters satisfy d in {6,8}, d <= k <= maxDictSize, splitPoint in (0,1], f in [1,31], accel in [1,10]"}
*/
#include "verif.h"
#include "lib/common/error_private.c"
#include "lib/common/zstd_common.c"
#include "lib/common/pool.c"
#include "lib/dictBuilder/zdict.c"
#include "lib/dictBuilder/fastcover.c"
void harness(void)
{
    {
        ZDICT_cover_params_t p; IN(vsz, maxDict); IN(vu32, f); IN(vu32, accel);
        ASSUME(p.splitPoint == p.splitPoint);   /* not NaN: a NaN split point passes both range tests (floating point is outside this technique; noted in DESIGN.md) */
        int const ok = FASTCOVER_checkParameters(p, maxDict, f, accel);
        if (ok) { REACH("fastcover: parameters accepted"); CLAIM((p.d == 6 || p.d == 8) && p.d <= p.k && p.k <= maxDict && f >= 1 && f <= 31 && accel >= 1 && accel <= 10 && p.splitPoint > 0 && p.splitPoint <= 1, "C18 fastcover: accepted parameters are inside their documented ranges"); }
    }
}
