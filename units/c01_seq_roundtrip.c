/*UNIT
{"props": ["C01","C04"], "kind": "K2", "tier": "quick", "timeout": 900, "replay": true,
 "cbmc": ["--unwind", "2"],
 "functions": ["ZSTD_seqToCodes","ZSTD_LLcode","ZSTD_MLcode","ZSTD_buildCTable","FSE_buildCTable_rle","ZSTD_encodeSequences","BIT_initCStream","BIT_addBits","BIT_flushBits","BIT_closeCStream","FSE_initCState2","FSE_flushCState",
               "ZSTD_buildSeqTable","ZSTD_buildSeqTable_rle","BIT_initDStream","ZSTD_initFseState","ZSTD_decodeSequence","BIT_readBitsFast","BIT_reloadDStream","ZSTD_updateRep"],
 "floor": 200,
 "assumes": ["one sequence per block section, RLE-mode tables (the FSE state machine with >1 symbol is covered by c01_fse_state)", "rep[0] > 1 when the 'rep[0]-1' code is used (the encoder never emits it otherwise)"],
 "what": "sequence section encode->decode inverse on the real encoder and decoder: for every litLength/matchLength < 2^17 (incl. the long-length escape), every 32-bit offBase, every repcode history: decoded (litLength, matchLength, offset) equal the stored ones, decoder's repeat-offset history equals the encoder's, bitstream consumed exactly"}
*/
#include "verif.h"
#include "lib/common/entropy_common.c"
#include "lib/common/fse_decompress.c"
#include "lib/compress/fse_compress.c"
#include "lib/compress/zstd_compress_sequences.c"
#include "lib/compress/zstd_compress.c"
#include "lib/decompress/zstd_decompress_block.c"

void harness(void)
{
    IN(vu32, litLength); IN(vu32, mlBase); IN(vu32, offBase); IN(vu32, rep0); IN(vu32, rep1); IN(vu32, rep2); IN(vint, longOffsets);
    /* ---------------- encoder ---------------- */
    seqDef seqs[1];
    BYTE llCode[1], mlCode[1], ofCode[1];
    seqStore_t ss;
    FSE_CTable ctLL[FSE_CTABLE_SIZE_U32(LLFSELog, MaxLL)], ctML[FSE_CTABLE_SIZE_U32(MLFSELog, MaxML)], ctOF[FSE_CTABLE_SIZE_U32(OffFSELog, MaxOff)];
    BYTE hdr[3];
    BYTE bits[32];
    U32 rep[3];
    size_t r, bsz;

    ASSUME(litLength <= 131071 && mlBase <= 131071);
    ASSUME(!(litLength > 0xFFFF && mlBase > 0xFFFF));         /* at most one long length per block (ZSTD_storeSeq) */
    ASSUME(offBase >= 1);
    ASSUME(rep0 >= 1 && rep1 >= 1 && rep2 >= 1);
    ASSUME(longOffsets == 0 || longOffsets == 1);
    rep[0] = rep0; rep[1] = rep1; rep[2] = rep2;

    seqs[0].litLength = (U16)litLength; seqs[0].mlBase = (U16)mlBase; seqs[0].offBase = offBase;
    ss.sequencesStart = seqs; ss.sequences = seqs + 1; ss.maxNbSeq = 1;
    ss.llCode = llCode; ss.mlCode = mlCode; ss.ofCode = ofCode;
    ss.longLengthType = litLength > 0xFFFF ? ZSTD_llt_literalLength : mlBase > 0xFFFF ? ZSTD_llt_matchLength : ZSTD_llt_none;
    ss.longLengthPos = 0;
    (void)ZSTD_seqToCodes(&ss);
    CLAIM(llCode[0] <= MaxLL && mlCode[0] <= MaxML && ofCode[0] <= MaxOff, "C05 seq: codes within the format's ranges");

    r = ZSTD_buildCTable(hdr + 0, 1, ctLL, LLFSELog, set_rle, NULL, llCode[0], llCode, 1, LL_defaultNorm, LL_defaultNormLog, MaxLL, NULL, 0, NULL, 0);
    CLAIM(r == 1, "seq: LL rle table header is one byte");
    r = ZSTD_buildCTable(hdr + 1, 1, ctOF, OffFSELog, set_rle, NULL, ofCode[0], ofCode, 1, OF_defaultNorm, OF_defaultNormLog, DefaultMaxOff, NULL, 0, NULL, 0);
    CLAIM(r == 1, "seq: OF rle table header is one byte");
    r = ZSTD_buildCTable(hdr + 2, 1, ctML, MLFSELog, set_rle, NULL, mlCode[0], mlCode, 1, ML_defaultNorm, ML_defaultNormLog, MaxML, NULL, 0, NULL, 0);
    CLAIM(r == 1, "seq: ML rle table header is one byte");

    bsz = ZSTD_encodeSequences(bits, sizeof(bits), ctML, mlCode, ctOF, ofCode, ctLL, llCode, seqs, 1, longOffsets, 0);
    CLAIM(!ZSTD_isError(bsz) && bsz >= 1 && bsz <= sizeof(bits), "C06 seq: bitstream fits and is non-empty");

    /* ---------------- decoder ---------------- */
    {   ZSTD_seqSymbol dLL[2], dOF[2], dML[2];
        const ZSTD_seqSymbol *pLL = NULL, *pOF = NULL, *pML = NULL;
        seqState_t st;
        seq_t out;
        U32 want_off, ll0, repCode;
        r = ZSTD_buildSeqTable(dLL, &pLL, set_rle, MaxLL, LLFSELog, hdr + 0, 1, LL_base, LL_bits, LL_defaultDTable, 0, 0, 1, NULL, 0, 0);
        CLAIM(r == 1, "seq: decoder accepts the LL rle header");
        r = ZSTD_buildSeqTable(dOF, &pOF, set_rle, MaxOff, OffFSELog, hdr + 1, 1, OF_base, OF_bits, OF_defaultDTable, 0, 0, 1, NULL, 0, 0);
        CLAIM(r == 1, "seq: decoder accepts the OF rle header");
        r = ZSTD_buildSeqTable(dML, &pML, set_rle, MaxML, MLFSELog, hdr + 2, 1, ML_base, ML_bits, ML_defaultDTable, 0, 0, 1, NULL, 0, 0);
        CLAIM(r == 1, "seq: decoder accepts the ML rle header");

        st.prevOffset[0] = rep0; st.prevOffset[1] = rep1; st.prevOffset[2] = rep2;
        r = BIT_initDStream(&st.DStream, bits, bsz);
        CLAIM(!ZSTD_isError(r), "seq: decoder accepts the bitstream");
        ZSTD_initFseState(&st.stateLL, &st.DStream, pLL);
        ZSTD_initFseState(&st.stateOffb, &st.DStream, pOF);
        ZSTD_initFseState(&st.stateML, &st.DStream, pML);

        /* expectation from the format document (doc/zstd_compression_format.md, "Repeat Offsets") */
        ll0 = (litLength == 0);
        if (offBase > 3) { want_off = offBase - 3; repCode = 99; }
        else {
            repCode = offBase - 1 + ll0;               /* 0..3 */
            want_off = repCode == 0 ? rep0 : repCode == 1 ? rep1 : repCode == 2 ? rep2 : rep0 - 1;
        }
        ASSUME(!(repCode == 3 && rep0 == 1));

        out = ZSTD_decodeSequence(&st, (ZSTD_longOffset_e)longOffsets, 1);
        REACH("seq: decoded");
        if (offBase > 3) REACH("seq: real offset"); else REACH("seq: repcode");
        if (litLength > 0xFFFF) REACH("seq: long literal length");
        if (mlBase > 0xFFFF) REACH("seq: long match length");
        CLAIM(out.litLength == litLength, "C01 seq: decoded literal length equals the stored one");
        CLAIM(out.matchLength == (size_t)mlBase + MINMATCH, "C01 seq: decoded match length equals the stored one");
        CLAIM(out.offset == want_off, "C01 seq: decoded offset equals the offset the format defines for this code and history");

        /* repeat-offset history in lock-step */
        ZSTD_updateRep(rep, offBase, ll0);
        CLAIM(st.prevOffset[0] == rep[0] && st.prevOffset[1] == rep[1] && st.prevOffset[2] == rep[2],
              "C01 seq: decoder repeat-offset history equals the encoder's after the sequence");
        CLAIM(rep[0] == want_off, "C01 seq: newest repeat offset is the offset just used");
        CLAIM(BIT_endOfDStream(&st.DStream), "C01 seq: bitstream consumed exactly");
    }
}
