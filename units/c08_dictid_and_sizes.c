/*UNIT
{"props": ["C08","C10","C18"], "kind": "K2", "tier": "quick", "timeout": 300, "replay": true,
 "functions": ["ZSTD_getDictID_fromDict","ZDICT_getDictID","ZSTD_isError","ZSTD_CStreamInSize","ZSTD_CStreamOutSize","ZSTD_DStreamInSize","ZSTD_DStreamOutSize"],
 "floor": 10,
 "what": "small full-domain lemmas: (C08/C18) every dictionary-ID query reads the same field of an arbitrary byte string and agrees with the other (0 unless the dictionary magic is present and 8 bytes are there), never reading past the buffer; (C10) the recommended stream buffer sizes hold one full block plus its header (and the checksum on the compression side)"}
*/
#include "verif.h"
#include "lib/compress/zstd_compress.c"
#include "lib/decompress/zstd_ddict.c"
#include "lib/decompress/zstd_decompress.c"
#include "lib/common/pool.c"
#include "lib/dictBuilder/zdict.c"

void harness(void)
{
    IN(vint, which);
    if (which == 0) {
        IN(vsz, n); BYTE* d;
        ASSUME(n <= ((size_t)1 << 32)); d = (BYTE*)malloc(n); ASSUME(d != NULL);
        {   unsigned const a = ZSTD_getDictID_fromDict(d, n);
            unsigned const b = ZDICT_getDictID(d, n);
            REACH("dictid: queried");
            CLAIM(a == b, "C08/C18 dictid: the compression-side and trainer-side ID queries agree on every byte string");
            if (n < 8 || MEM_readLE32(d) != ZSTD_MAGIC_DICTIONARY) CLAIM(a == 0, "C08 dictid: no magic or fewer than 8 bytes means raw content (ID 0)");
            else { REACH("dictid: zstd dictionary"); CLAIM(a == MEM_readLE32(d + 4), "C08 dictid: the ID is the little-endian field after the magic"); }
        }
    } else if (which == 1) {
        REACH("sizes");
        CLAIM(ZSTD_CStreamInSize() == ZSTD_BLOCKSIZE_MAX, "C10 sizes: recommended compression input size is one full block");
        CLAIM(!ZSTD_isError(ZSTD_CStreamOutSize()) && ZSTD_CStreamOutSize() >= ZSTD_compressBound(ZSTD_BLOCKSIZE_MAX) + ZSTD_blockHeaderSize + 4, "C10 sizes: recommended compression output size holds a worst-case block, its header and the checksum");
        CLAIM(ZSTD_CStreamOutSize() >= ZSTD_BLOCKSIZE_MAX + ZSTD_blockHeaderSize + ZSTD_FRAMEHEADERSIZE_MAX, "C10 sizes: ... and also a frame header in front of a raw block");
        CLAIM(ZSTD_DStreamInSize() >= ZSTD_BLOCKSIZE_MAX + ZSTD_blockHeaderSize, "C10 sizes: recommended decompression input size holds one full block and the next block header");
        CLAIM(ZSTD_DStreamOutSize() >= ZSTD_BLOCKSIZE_MAX, "C10 sizes: recommended decompression output size holds one full block");
    }
}
