/*UNIT
{"props": ["C03","C01","C04"], "kind": "K2", "tier": "quick", "timeout": 900,
 "functions": ["ZSTD_decodeSequence","ZSTD_updateFseStateWithDInfo","BIT_readBits","BIT_readBitsFast","BIT_lookBits","BIT_lookBitsFast","BIT_skipBits","BIT_reloadDStream","BIT_reloadDStream_internal","BIT_initDStream"],
 "floor": 100,
 "assumes": ["the bitstream buffer is modelled with 8 bytes of slack in front (see comment in the harness); reads below the stream start are excluded by an explicit claim on the reader window", "decoding tables satisfy the validity predicate established by ZSTD_buildFSETable / the default tables (per indexed cell: nbBits <= tableLog <= 9/9/8, nextState + 2^nbBits <= 2^tableLog, nbAdditionalBits <= 16/16/31)",
             "bit reader state is what BIT_initDStream + BIT_reloadDStream produce on an arbitrary byte buffer of 8..40 bytes; the budget claim is made when the reader is fully reloaded (bitsConsumed <= 7), which is the state ZSTD_decompressSequences_body re-establishes before each sequence while input remains"],
 "what": "one step of the sequence decoder on ARBITRARY bitstream bytes and arbitrary valid tables, both values of longOffsets and isLastSeq: every load stays inside the bitstream buffer, the three FSE states stay inside their tables, and between two reloads no read goes past the 64-bit container (ghost high-water mark of bitsConsumed <= 64), i.e. over-read is detected, never performed, and no bit is ever taken from beyond what was loaded"}
*/
#include "verif.h"
#include "lib/common/entropy_common.c"
#include "lib/common/fse_decompress.c"
#include "lib/decompress/zstd_decompress_block.c"

/* table validity for the cell in use: state bits within the table, and (baseValue, nbAdditionalBits) are the
 * constants of some symbol of that alphabet (what ZSTD_buildFSETable_body / the rle builder store) */
static void constrain_cell(const ZSTD_seqSymbol* t, size_t state, unsigned log, const U32* base, const U8* bits, unsigned maxSym, unsigned sym)
{
    ASSUME(t[state].nbBits <= log);
    ASSUME((U32)t[state].nextState + ((U32)1 << t[state].nbBits) <= ((U32)1 << log));
    ASSUME(sym <= maxSym);
    ASSUME(t[state].nbAdditionalBits == bits[sym] && t[state].baseValue == base[sym]);
}

void harness(void)
{
    IN(vsz, n); IN(vu32, llLog); IN(vu32, ofLog); IN(vu32, mlLog); IN(vint, longOffsets); IN(vint, isLast);
    IN(vsz, sLL); IN(vsz, sOF); IN(vsz, sML); IN(vu64, p0); IN(vu64, p1); IN(vu64, p2);
    BYTE* buf; ZSTD_seqSymbol *tLL, *tOF, *tML;
    seqState_t st; seq_t out; size_t r;
    ASSUME(n >= 9 && n <= 48);               /* >= 9: container-sized reloads possible; small streams take the cautious path */
    ASSUME(llLog <= LLFSELog && ofLog <= OffFSELog && mlLog <= MLFSELog);
    ASSUME(longOffsets == 0 || longOffsets == 1);
    /* 8 bytes of slack in front of the stream: the reader's guard "ptr - nbBytes < start" forms a pointer up to 8
     * bytes before the stream, which CBMC can only order correctly while it stays inside the same object. Loads
     * below `start` are therefore excluded by the explicit claim "ptr >= start" instead of by the object bound. */
    {   BYTE* const slack = (BYTE*)malloc(n + 8); ASSUME(slack != NULL); buf = slack + 8; }
    tLL = (ZSTD_seqSymbol*)malloc(sizeof(ZSTD_seqSymbol) << llLog);
    tOF = (ZSTD_seqSymbol*)malloc(sizeof(ZSTD_seqSymbol) << ofLog);
    tML = (ZSTD_seqSymbol*)malloc(sizeof(ZSTD_seqSymbol) << mlLog);
    ASSUME(tLL && tOF && tML);
    ASSUME(buf[n - 1] != 0);                  /* last byte carries the end mark (BIT_initDStream rejects 0) */
    r = BIT_initDStream(&st.DStream, buf, n);
    ASSUME(!ZSTD_isError(r));
    ASSUME(sLL < ((size_t)1 << llLog) && sOF < ((size_t)1 << ofLog) && sML < ((size_t)1 << mlLog));
    st.stateLL.state = sLL; st.stateLL.table = tLL;
    st.stateOffb.state = sOF; st.stateOffb.table = tOF;
    st.stateML.state = sML; st.stateML.table = tML;
    st.prevOffset[0] = p0; st.prevOffset[1] = p1; st.prevOffset[2] = p2;
    {   IN(vu32, symLL); IN(vu32, symOF); IN(vu32, symML);
        constrain_cell(tLL, sLL, llLog, LL_base, LL_bits, MaxLL, symLL);
        constrain_cell(tOF, sOF, ofLog, OF_base, OF_bits, MaxOff, symOF);
        constrain_cell(tML, sML, mlLog, ML_base, ML_bits, MaxML, symML);
    }
    /* some earlier sequences have been decoded: arbitrary consumption, then the reload the decoder loop performs */
    {   IN(vu32, consumed); ASSUME(consumed <= 64); st.DStream.bitsConsumed += consumed; }
    (void)BIT_reloadDStream(&st.DStream);

    {   unsigned const entry = st.DStream.bitsConsumed;
        size_t const ptr0 = (size_t)(st.DStream.ptr - st.DStream.start);
        zstd_verif_ghost.bits_high = entry;
        out = ZSTD_decodeSequence(&st, (ZSTD_longOffset_e)longOffsets, isLast);
        REACH("decodeSequence: returned");
        CLAIM(st.DStream.bitsConsumed > 64
              || ((const BYTE*)st.DStream.ptr >= buf && (const BYTE*)st.DStream.ptr + sizeof(size_t) <= buf + n),
              "C03 decodeSequence: unless in overflow mode, the reader's window stays inside the bitstream buffer");
        CLAIM(st.stateLL.state < ((size_t)1 << llLog) && st.stateOffb.state < ((size_t)1 << ofLog) && st.stateML.state < ((size_t)1 << mlLog),
              "C03 decodeSequence: FSE states stay inside their tables");
        CLAIM(out.litLength <= 0x1FFFF + 0x10000 && out.matchLength <= 0x1FFFF + 0x10000 + 3, "C03 decodeSequence: lengths are bounded by base + extra bits");
        /* fully reloaded and at least 24 bytes of stream left: both reloads inside the step are complete ones */
        if (entry <= 7 && ptr0 >= 24) {
            REACH("decodeSequence: fully reloaded");
            CLAIM(zstd_verif_ghost.bits_high <= 64, "C01/C03 decodeSequence: between two reloads no read goes past the 64-bit container");
        }
    }
}
