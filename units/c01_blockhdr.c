/*UNIT
{"props": ["C01","C05","C06"], "kind": "K2", "tier": "quick", "timeout": 600,
 "extra_src": ["stubs/mem_sampled.c"],
 "functions": ["ZSTD_noCompressBlock","ZSTD_rleCompressBlock","ZSTD_writeLastEmptyBlock","ZSTD_getcBlockSize","MEM_writeLE24","MEM_readLE24"],
 "floor": 20,
 "assumes": ["mem_sampled shim: the raw-block payload copy is abstracted (readability/writability asserted, content not modelled); claims concern header bytes and sizes only"],
 "what": "block-header writers <-> reader inverse for every block size < 2^21 and every capacity: type, last-block flag and size read back exactly; 'error or n <= capacity'; writes only inside dst"}
*/
#include "verif.h"
#include "lib/compress/zstd_compress.c"
#include "lib/decompress/zstd_decompress_block.c"

void harness(void)
{
    IN(vint, which); IN(vsz, cap); IN(vsz, n); IN(vu32, last); IN(vu8, byte);
    BYTE* dst; BYTE* src;
    size_t r;
    blockProperties_t bp;
    ASSUME(cap <= (1u << 22));
    ASSUME(n < (1u << 21));                 /* 21-bit block size field */
    ASSUME(last <= 1);
    dst = (BYTE*)malloc(cap); src = (BYTE*)malloc(n);
    ASSUME(dst && src);

    if (which == 0) {
        r = ZSTD_noCompressBlock(dst, cap, src, n, last);
        if (ZSTD_isError(r)) { REACH("blockhdr: raw too small"); CLAIM(n + 3 > cap, "C06 blockhdr: raw block refused only when it does not fit"); return; }
        REACH("blockhdr: raw written");
        CLAIM(r == n + 3 && r <= cap, "C06 blockhdr: raw block size is header + content and fits");
        {   size_t const g = ZSTD_getcBlockSize(dst, r, &bp);
            CLAIM(g == n, "C01 blockhdr: raw block size reads back");
            CLAIM(bp.blockType == bt_raw && bp.lastBlock == last && bp.origSize == n, "C01/C05 blockhdr: raw header fields read back");
        }
    } else if (which == 1) {
        r = ZSTD_rleCompressBlock(dst, cap, byte, n, last);
        if (ZSTD_isError(r)) { CLAIM(cap < 4, "C06 blockhdr: rle block refused only when capacity < 4"); return; }
        REACH("blockhdr: rle written");
        CLAIM(r == 4 && r <= cap, "C06 blockhdr: rle block is 4 bytes");
        {   size_t const g = ZSTD_getcBlockSize(dst, r, &bp);
            CLAIM(g == 1, "C01 blockhdr: rle block carries one content byte");
            CLAIM(bp.blockType == bt_rle && bp.lastBlock == last && bp.origSize == n, "C01/C05 blockhdr: rle header fields read back (regenerated size)");
            CLAIM(dst[3] == byte, "C01 blockhdr: rle byte stored");
        }
    } else {
        r = ZSTD_writeLastEmptyBlock(dst, cap);
        if (ZSTD_isError(r)) { CLAIM(cap < 3, "C06 blockhdr: empty last block refused only when capacity < 3"); return; }
        REACH("blockhdr: empty last block");
        CLAIM(r == 3, "C05 blockhdr: empty last block is 3 bytes");
        {   size_t const g = ZSTD_getcBlockSize(dst, r, &bp);
            CLAIM(g == 0 && bp.blockType == bt_raw && bp.lastBlock == 1, "C05 blockhdr: epilogue block is an empty raw last block");
        }
    }
}
