/*UNIT
{"props": ["C03","C06"], "kind": "K1", "tier": "quick", "timeout": 900,
 "loop_contracts": true, "cbmc": ["--unwind", "13", "--unwindset", "ZSTD_decompressSequences_body.0:4,ZSTD_decompressSequences_body.2:4"],
 "extra_src": ["stubs/mem_ranges.c"], "defines": ["VERIF_MEM_HAVOC_SLICE", "ZSTD_DECODER_INTERNAL_BUFFER=64"],
 "replace": ["ZSTD_decodeSequence", "ZSTD_execSequence", "BIT_initDStream", "ZSTD_initFseState", "BIT_endOfDStream"],
 "functions": ["ZSTD_decompressSequences_body", "ZSTD_decompressSequences_default"],
 "floor": 60,
 "assumes": ["ZSTD_decodeSequence replaced by a contract whose ENSURES (lengths within litLength <= 0x2FFFF, matchLength <= 0x30002) is what unit c03_decode_sequence proves; ZSTD_execSequence replaced by a contract whose REQUIRES are asserted at every call (op inside [ostart, oend], literal cursor inside the literal buffer, lengths bounded) and whose ENSURES - error, or exactly litLength + matchLength bytes produced, fitting before oend, literal cursor advanced by litLength <= what is left - are the claims of units c03_exec_sequence_end (proved) and c03_exec_sequence (thorough tier)",
             "bit-stream set-up (BIT_initDStream, ZSTD_initFseState, BIT_endOfDStream) replaced by frame-only contracts: what they read is the subject of c03_decode_sequence",
             "literals outside dst or inside dst beyond the block's output (oend = litBuffer), as ZSTD_decodeLiteralsBlock leaves them; context is a typed static object"],
 "what": "sequence loop of the block decoder for ANY number of sequences (loop contract with variant): the output cursor never passes oend (which is the start of the literals when they live inside dst, so pending literals are never overwritten), the literal cursor never passes the end of the literals, every sequence executor call gets a consistent (op, oend, literal cursor, literal end), the last-literals copy fits both its source and its destination, and the result is an error or the number of bytes regenerated <= maxDstSize"}
*/
#include "verif.h"
#include "lib/common/error_private.c"
#include "lib/common/zstd_common.c"
#undef FSE_isError
#undef HUF_isError
#include "lib/common/entropy_common.c"
#include "lib/common/fse_decompress.c"
#include "lib/decompress/zstd_decompress_block.c"

FORCE_INLINE_TEMPLATE seq_t ZSTD_decodeSequence(seqState_t* seqState, const ZSTD_longOffset_e longOffsets, const int isLastSeq)
__CPROVER_requires(seqState != NULL)
__CPROVER_assigns(*seqState)
__CPROVER_ensures(__CPROVER_return_value.litLength <= 0x1FFFF + 0x10000 && __CPROVER_return_value.matchLength <= 0x1FFFF + 0x10000 + 3)
;
HINT_INLINE size_t ZSTD_execSequence(BYTE* op, BYTE* const oend, seq_t sequence, const BYTE** litPtr, const BYTE* const litLimit,
                                     const BYTE* const prefixStart, const BYTE* const virtualStart, const BYTE* const dictEnd)
__CPROVER_requires(__CPROVER_same_object(op, oend) && __CPROVER_POINTER_OFFSET(op) <= __CPROVER_POINTER_OFFSET(oend))
__CPROVER_requires(litPtr != NULL && __CPROVER_same_object(*litPtr, litLimit) && __CPROVER_POINTER_OFFSET(*litPtr) <= __CPROVER_POINTER_OFFSET(litLimit))
__CPROVER_requires(sequence.litLength <= 0x1FFFF + 0x10000 && sequence.matchLength <= 0x1FFFF + 0x10000 + 3)
__CPROVER_assigns(*litPtr, __CPROVER_object_whole(op))
__CPROVER_ensures(ZSTD_isError(__CPROVER_return_value)
   || (__CPROVER_return_value == sequence.litLength + sequence.matchLength
       && __CPROVER_return_value <= (size_t)(__CPROVER_POINTER_OFFSET(oend) - __CPROVER_POINTER_OFFSET(op))
       && __CPROVER_same_object(*litPtr, litLimit)
       && __CPROVER_POINTER_OFFSET(*litPtr) == __CPROVER_POINTER_OFFSET(__CPROVER_old(*litPtr)) + sequence.litLength
       && __CPROVER_POINTER_OFFSET(*litPtr) <= __CPROVER_POINTER_OFFSET(litLimit)))
;
MEM_STATIC size_t BIT_initDStream(BIT_DStream_t* bitD, const void* srcBuffer, size_t srcSize)
__CPROVER_requires(bitD != NULL && (srcSize == 0 || __CPROVER_r_ok(srcBuffer, srcSize)))
__CPROVER_assigns(*bitD)
__CPROVER_ensures(1)
;
static void ZSTD_initFseState(ZSTD_fseState* DStatePtr, BIT_DStream_t* bitD, const ZSTD_seqSymbol* dt)
__CPROVER_requires(DStatePtr != NULL && bitD != NULL)
__CPROVER_assigns(*DStatePtr, *bitD)
__CPROVER_ensures(1)
;
MEM_STATIC unsigned BIT_endOfDStream(const BIT_DStream_t* DStream)
__CPROVER_requires(DStream != NULL)
__CPROVER_assigns()
__CPROVER_ensures(__CPROVER_return_value <= 1)
;

void harness(void)
{
    static ZSTD_DCtx dobj;
    IN(vsz, cap); IN(vsz, n); IN(vint, nbSeq); IN(vint, inDst); IN(vsz, litOff); IN(vsz, litSize); IN(vsz, Sl); IN(vsz, lp);
    BYTE* dst; BYTE* src; BYTE* lit; size_t r; size_t room;
    ASSUME(cap <= ((size_t)1 << 30) && n <= ((size_t)1 << 20) && nbSeq >= 0 && nbSeq <= 0x7F00 + 0xFFFF);
    dst = (BYTE*)malloc(cap); src = (BYTE*)malloc(n); ASSUME(dst && src);
    if (inDst & 1) {      /* literals stored inside dst beyond the block's output: oend is their start */
        ASSUME(litOff <= cap && litSize <= cap - litOff && cap >= 1);
        dobj.litBufferLocation = ZSTD_in_dst; dobj.litBuffer = dst + litOff; dobj.litPtr = dst + litOff; dobj.litSize = litSize;
        room = litOff;
    } else {              /* literals in their own buffer (extra buffer or the input): anywhere inside it */
        ASSUME(Sl <= ((size_t)1 << 20) && lp <= Sl && litSize <= Sl - lp);
        lit = (BYTE*)malloc(Sl); ASSUME(lit != NULL);
        dobj.litBufferLocation = ZSTD_not_in_dst; dobj.litBuffer = lit; dobj.litPtr = lit + lp; dobj.litSize = litSize;
        room = cap;
    }
    dobj.prefixStart = dst; dobj.virtualStart = dst; dobj.dictEnd = dst;
    ASSUME(nbSeq == 0 || cap > 0);                                     /* checked by ZSTD_decompressBlock_internal (unit c03_block_glue) */

    r = ZSTD_decompressSequences_default(&dobj, dst, cap, src, n, nbSeq, ZSTD_lo_isRegularOffset);
    if (ZSTD_isError(r)) { REACH("seqloop: error"); return; }
    REACH("seqloop: block regenerated");
    CLAIM(r <= room && r <= cap, "C03/C06 seqloop: the regenerated size never exceeds the room before oend (the capacity, or the start of literals kept inside dst)");
    CLAIM(r >= litSize || nbSeq > 0, "C03 seqloop: without sequences the block is its literals");
    if (nbSeq == 0) { REACH("seqloop: literals only"); CLAIM(r == litSize, "C03 seqloop: a block without sequences regenerates exactly its literals"); }
}
