/*UNIT
{"props": ["C13"], "kind": "K1", "tier": "quick", "timeout": 600,
 "cbmc": ["--memory-leak-check"], "extra_src": ["stubs/mem_sampled.c"],
 "functions": ["ZSTD_customMalloc","ZSTD_customCalloc","ZSTD_customFree","ZSTD_createDCtx_advanced","ZSTD_freeDCtx","ZSTD_createDDict_advanced","ZSTD_freeDDict","ZSTD_initDDict_internal"],
 "floor": 50,
 "assumes": ["the caller's allocator either returns NULL or a fresh block of the requested size; every call may fail independently (all fault subsets at once)",
             "leak obligation: CBMC --memory-leak-check at the end of the harness (one nondeterministically tracked allocation must have been released)",
             "dictionary content <= 7 bytes / raw-content mode in the DDict constructor (entropy loading is covered by the C08 units); the multi-DDict hash set constructors are in unit c03_ddict_hashset"],
 "what": "decompression-side constructors under allocation failure at any subset of allocation points: result is NULL/error or a fully built object, no NULL result of the allocator is ever dereferenced, and after freeing (or after the failed call) nothing obtained from the caller's allocator is still live"}
*/
#include "verif.h"
#include "lib/common/error_private.c"
#include "lib/common/zstd_common.c"
#include "lib/decompress/zstd_ddict.c"
#include "lib/decompress/zstd_decompress.c"

static void* fail_alloc(void* opaque, size_t size) { (void)opaque; if (nondet_vint()) return NULL; return malloc(size); }
static void  fail_free(void* opaque, void* p) { (void)opaque; free(p); }

void harness(void)
{
    IN(vint, which); IN(vsz, dsize); IN(vint, byRef);
    ZSTD_customMem const cm = { fail_alloc, fail_free, NULL };
    if (which == 1) {
        ZSTD_DCtx* const d = ZSTD_createDCtx_advanced(cm);
        if (d) { REACH("alloc: dctx created"); CLAIM(d->ddictLocal == NULL && d->inBuff == NULL && d->ddictSet == NULL && d->staticSize == 0, "C13 alloc: fresh DCtx owns nothing yet"); CLAIM(ZSTD_freeDCtx(d) == 0, "C13 alloc: freeDCtx succeeds"); }
        else { REACH("alloc: dctx creation failed"); }
    } else {
        BYTE dict[8];
        ZSTD_DDict* dd;
        ASSUME(dsize <= 7);
        dd = ZSTD_createDDict_advanced(dict, dsize, byRef ? ZSTD_dlm_byRef : ZSTD_dlm_byCopy, ZSTD_dct_rawContent, cm);
        if (dd) { REACH("alloc: ddict created"); CLAIM(ZSTD_freeDDict(dd) == 0, "C13 alloc: freeDDict succeeds"); }
        else { REACH("alloc: ddict creation failed"); }
    }
}
