/*UNIT
{"props": ["C16"], "kind": "K1", "tier": "quick", "timeout": 600,
 "defines": ["ZSTD_MULTITHREAD"],
 "replace": ["ZSTD_compressStream2"],
 "functions": ["ZSTD_compress2","ZSTD_compressStream2_simpleArgs","ZSTD_CCtx_reset"],
 "floor": 30,
 "assumes": ["ZSTD_compressStream2 replaced by its contract (assumed): it may change anything in the context except the requested parameters, returns an error, 0 (done) or a positive hint, and advances the two positions within their buffers"],
 "what": "accepted parameters stay in force across a single-call compression: ZSTD_compress2 leaves every requested parameter exactly as the caller set it (it forces stable buffer modes internally and must restore them), returns an error or a size <= capacity"}
*/
#include "verif.h"
#include "lib/compress/zstd_compress_internal.h"

#define RP(c) ((c)->requestedParams)
#define SAME(f) (RP(cctx).f == __CPROVER_old(RP(cctx).f))
size_t ZSTD_compressStream2(ZSTD_CCtx* cctx, ZSTD_outBuffer* output, ZSTD_inBuffer* input, ZSTD_EndDirective endOp)
__CPROVER_requires(cctx != NULL && output != NULL && input != NULL)
__CPROVER_requires(output->pos <= output->size && input->pos <= input->size)
__CPROVER_assigns(__CPROVER_object_whole(cctx), output->pos, input->pos, __CPROVER_object_whole(output->dst))
__CPROVER_ensures(output->pos >= __CPROVER_old(output->pos) && output->pos <= output->size && input->pos >= __CPROVER_old(input->pos) && input->pos <= input->size)
__CPROVER_ensures(SAME(format) && SAME(cParams.windowLog) && SAME(cParams.chainLog) && SAME(cParams.hashLog) && SAME(cParams.searchLog) && SAME(cParams.minMatch)
               && SAME(cParams.targetLength) && SAME(cParams.strategy) && SAME(fParams.contentSizeFlag) && SAME(fParams.checksumFlag) && SAME(fParams.noDictIDFlag)
               && SAME(compressionLevel) && SAME(forceWindow) && SAME(targetCBlockSize) && SAME(srcSizeHint) && SAME(attachDictPref) && SAME(literalCompressionMode)
               && SAME(nbWorkers) && SAME(jobSize) && SAME(overlapLog) && SAME(rsyncable) && SAME(ldmParams.enableLdm) && SAME(ldmParams.hashLog) && SAME(ldmParams.bucketSizeLog)
               && SAME(ldmParams.minMatchLength) && SAME(ldmParams.hashRateLog) && SAME(ldmParams.windowLog) && SAME(enableDedicatedDictSearch) && SAME(inBufferMode) && SAME(outBufferMode)
               && SAME(blockDelimiters) && SAME(validateSequences) && SAME(useBlockSplitter) && SAME(useRowMatchFinder) && SAME(deterministicRefPrefix)
               && SAME(prefetchCDictTables) && SAME(enableMatchFinderFallback) && SAME(maxBlockSize) && SAME(searchForExternalRepcodes))
;
#include "lib/common/error_private.c"
#include "lib/common/zstd_common.c"
#include "lib/compress/zstd_compress.c"

void harness(void)
{
    IN(vsz, cap); IN(vsz, n); IN(vint, param);
    static ZSTD_CCtx cctx_obj;
    ZSTD_CCtx* const c = &cctx_obj;
    void* dst; void* src;
    int before = 1, after = 2;
    size_t gb, ga, r;
    ASSUME(cap <= ((size_t)1 << 32) && n <= ((size_t)1 << 32));
    dst = malloc(cap); src = malloc(n);
    ASSUME(dst && src);
    c->localDict.dictBuffer = NULL; c->localDict.cdict = NULL;
    gb = ZSTD_CCtx_getParameter(c, (ZSTD_cParameter)param, &before);
    r = ZSTD_compress2(c, dst, cap, src, n);
    ga = ZSTD_CCtx_getParameter(c, (ZSTD_cParameter)param, &after);
    CLAIM(gb == ga, "C16 sticky: readability of parameters unchanged by ZSTD_compress2");
    if (gb == 0) { REACH("sticky: parameter compared"); CLAIM(before == after, "C16 sticky: every parameter reads back unchanged after a ZSTD_compress2 call (accepted parameters stay in force)"); }
    if (!ZSTD_isError(r)) { REACH("sticky: compress2 succeeded"); CLAIM(r <= cap, "C06 compress2: result fits the capacity"); }
    else REACH("sticky: compress2 failed");
}
