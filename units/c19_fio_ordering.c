/*UNIT
{"props": ["C19"], "kind": "K2", "tier": "quick", "timeout": 600, "cbmc": ["--unwind", "20"],
 "split": {"define": "ONLY_WHICH", "values": {"compress": 0, "decompress": 1}},
 "replace_calls": {"FIO_openSrcFile": "stub_openSrc", "FIO_openDstFile": "stub_openDst", "FIO_removeFile": "stub_remove",
                   "addHandler": "stub_addHandler", "clearHandler": "stub_clearHandler",
                   "FIO_compressFilename_internal": "stub_compressInternal", "FIO_decompressFrames": "stub_decompressFrames"},
 "functions": ["FIO_compressFilename_srcFile", "FIO_compressFilename_dstFile", "FIO_decompressSrcFile", "FIO_decompressDstFile"],
 "floor": 20,
 "assumes": ["the operating system and the I/O pools are a nondeterministic environment: every open/close/stat/remove/transfer call may succeed or fail independently (stubs record the ORDER of events in ghost variables); FIO_openSrcFile, FIO_openDstFile, FIO_removeFile, the signal-handler registration and the two codec drivers (FIO_compressFilename_internal, FIO_decompressFrames) are redirected to such stubs",
             "file names: source is a regular name or the stdin marker, destination a regular name or the stdout marker; strcmp is a 16-character loop (fully unwound)",
             "what a crash (abrupt termination) leaves behind is read off the ghost state at every event: it is not an execution of a crash"],
 "what": "per-file drivers of the command-line tool, compression and decompression, for every outcome of every system call: (1) the source file is removed only with --rm, only after the codec reported success AND the destination was closed without error, never when the source is stdin, and at that moment the Ctrl-C handler that deletes the destination is disarmed; (2) a failed operation whose destination this call opened removes that destination (never stdout) and returns non-zero; (3) success is reported only if the codec succeeded and the close succeeded; (4) the destination is never removed after a success; (5) the delete-on-interrupt handler is armed only between a successful open of the destination and its close"}
*/
#include "verif.h"
#include <stdio.h>
#include <string.h>

/* ghost event log */
static int g_clock, g_t_dstOpen, g_t_dstClosed, g_dstCloseOK, g_t_srcRemoved, g_t_dstRemoved, g_handler, g_t_codec, g_codecResult, g_dstIsOurs, g_srcOpen, g_misarm;
static const char* g_srcName; static const char* g_dstName;
static FILE* g_poolDst;                 /* the write pool's current file */
static char g_fileObjA, g_fileObjB;

int strcmp(const char* a, const char* b)
{
    unsigned i;
    for (i = 0; i < 16; i++) { if (a[i] != b[i]) return (unsigned char)a[i] < (unsigned char)b[i] ? -1 : 1; if (a[i] == 0) return 0; }
    return 0;
}
int fileno(FILE* f) { (void)f; return 3; }
int fclose(FILE* f) { (void)f; g_srcOpen = 0; return nondet_vint() ? -1 : 0; }
char* strerror(int e) { static char msg[4] = "err"; (void)e; return msg; }

#include "programs/fileio.c"

/* ---- environment (defined here: these live in other translation units) ---- */
int UTIL_stat(const char* filename, stat_t* statbuf) { (void)filename; (void)statbuf; return nondet_vint() & 1; }
int UTIL_isDirectoryStat(const stat_t* statbuf) { (void)statbuf; return nondet_vint() & 1; }
int UTIL_isDirectory(const char* infilename) { (void)infilename; return nondet_vint() & 1; }
int UTIL_isRegularFileStat(const stat_t* statbuf) { (void)statbuf; return nondet_vint() & 1; }
int UTIL_isSameFileStat(const char* f1, const char* f2, const stat_t* s1, const stat_t* s2) { (void)f1; (void)f2; (void)s1; (void)s2; return nondet_vint() & 1; }
int UTIL_isCompressedFile(const char* infilename, const char* extensionList[]) { (void)infilename; (void)extensionList; return nondet_vint() & 1; }
U64 UTIL_getFileSizeStat(const stat_t* statbuf) { (void)statbuf; return nondet_vu64(); }
int UTIL_setFDStat(const int fd, const char* filename, const stat_t* statbuf) { (void)fd; (void)filename; (void)statbuf; return nondet_vint(); }
int UTIL_utime(const char* filename, const stat_t* statbuf) { (void)filename; (void)statbuf; return nondet_vint(); }
void AIO_ReadPool_setAsync(ReadPoolCtx_t* ctx, int async) { (void)ctx; (void)async; }
void AIO_WritePool_setAsync(WritePoolCtx_t* ctx, int async) { (void)ctx; (void)async; }
void AIO_ReadPool_setFile(ReadPoolCtx_t* ctx, FILE* file) { (void)ctx; (void)file; }
FILE* AIO_ReadPool_getFile(const ReadPoolCtx_t* ctx) { (void)ctx; return (FILE*)&g_fileObjA; }
int AIO_ReadPool_closeFile(ReadPoolCtx_t* ctx) { (void)ctx; g_srcOpen = 0; return nondet_vint() ? 1 : 0; }
FILE* AIO_WritePool_getFile(const WritePoolCtx_t* ctx) { (void)ctx; return g_poolDst; }
void AIO_WritePool_setFile(WritePoolCtx_t* ctx, FILE* file) { (void)ctx; g_poolDst = file; }
int AIO_WritePool_closeFile(WritePoolCtx_t* ctx)
{
    (void)ctx;
    __CPROVER_assert(g_poolDst != NULL && g_t_dstClosed == 0, "C19 fio: the destination is closed once, and only when open");
    __CPROVER_assert(g_handler == 0, "C19 fio: the delete-on-interrupt handler is disarmed before the destination is closed");
    g_t_dstClosed = ++g_clock; g_dstCloseOK = nondet_vint() & 1; g_poolDst = NULL;
    return g_dstCloseOK ? 0 : 1;
}

/* ---- stubs for functions of fileio.c itself (goto-instrument --replace-calls) ---- */
FILE* stub_openSrc(const FIO_prefs_t* const prefs, const char* srcFileName, stat_t* statbuf)
{ (void)prefs; (void)statbuf; __CPROVER_assert(srcFileName == g_srcName, "C19 fio: the source opened is the source named"); if (nondet_vint()) return NULL; g_srcOpen = 1; return (FILE*)&g_fileObjA; }
FILE* stub_openDst(FIO_ctx_t* fCtx, FIO_prefs_t* const prefs, const char* srcFileName, const char* dstFileName, const int mode)
{ (void)fCtx; (void)prefs; (void)srcFileName; (void)mode; __CPROVER_assert(dstFileName == g_dstName && g_t_dstOpen == 0, "C19 fio: the destination is opened once, under its name");
  if (nondet_vint()) return NULL; g_t_dstOpen = ++g_clock; g_dstIsOurs = 1; return (FILE*)&g_fileObjB; }
int stub_remove(const char* path)
{
    if (path == g_srcName) {
        __CPROVER_assert(g_t_srcRemoved == 0, "C19 fio: the source is removed at most once");
        __CPROVER_assert(g_handler == 0, "C19 fio: when the source is removed the handler that would delete the destination on Ctrl-C is disarmed");
        g_t_srcRemoved = ++g_clock;
    } else {
        __CPROVER_assert(path == g_dstName, "C19 fio: only the source or the destination of this operation is ever removed");
        g_t_dstRemoved = ++g_clock;
    }
    return nondet_vint() ? -1 : 0;
}
void stub_addHandler(char const* dstFileName)
{ if (!(dstFileName == g_dstName && g_t_dstOpen != 0 && g_t_dstClosed == 0)) g_misarm = 1; g_handler = 1; }
void stub_clearHandler(void) { g_handler = 0; }
static int codec(void) { __CPROVER_assert(g_t_codec == 0, "C19 fio: one codec run per file"); g_t_codec = ++g_clock; g_codecResult = nondet_vint() & 1; return g_codecResult; }
int stub_compressInternal(FIO_ctx_t* const fCtx, FIO_prefs_t* const prefs, cRess_t ress, const char* dstFileName, const char* srcFileName, int compressionLevel)
{ (void)fCtx; (void)prefs; (void)ress; (void)dstFileName; (void)srcFileName; (void)compressionLevel;
  __CPROVER_assert(g_poolDst != NULL, "C19 fio: the codec runs with an open destination"); return codec(); }
int stub_decompressFrames(FIO_ctx_t* const fCtx, dRess_t ress, const FIO_prefs_t* const prefs, const char* dstFileName, const char* srcFileName)
{ (void)fCtx; (void)ress; (void)dstFileName; (void)srcFileName;
  __CPROVER_assert(g_poolDst != NULL || prefs->testMode, "C19 fio: the decoder runs with an open destination unless in test mode"); return codec(); }

void harness(void)
{
    static FIO_prefs_t prefs; static FIO_ctx_t fctx;
    static char srcReg[] = "src.txt"; static char dstReg[] = "dst.out"; static char inMark[] = stdinmark; static char outMark[] = stdoutmark;
    IN(vint, srcIsStdin); IN(vint, dstIsStdout); IN(vint, rm); IN(vint, preopened); IN(vint, testMode); IN(vint, excl);
    int result;
    g_srcName = srcIsStdin ? inMark : srcReg; g_dstName = dstIsStdout ? outMark : dstReg;
    g_clock = 0; g_t_dstOpen = 0; g_t_dstClosed = 0; g_dstCloseOK = 0; g_t_srcRemoved = 0; g_t_dstRemoved = 0; g_handler = 0; g_t_codec = 0; g_codecResult = 0; g_dstIsOurs = 0; g_srcOpen = 0; g_misarm = 0;
    g_poolDst = preopened ? (FILE*)&g_fileObjB : NULL;          /* e.g. several sources into one destination: the caller owns it */
    prefs.removeSrcFile = rm & 1; prefs.testMode = testMode & 1; prefs.excludeCompressedFiles = excl & 1;
    g_display_prefs.displayLevel = 0;
#if ONLY_WHICH == 0
    {   static cRess_t ress; ress.dictFileName = NULL;
        result = FIO_compressFilename_srcFile(&fctx, &prefs, ress, g_dstName, g_srcName, 3);
    }
#else
    {   static dRess_t ress;
        result = FIO_decompressSrcFile(&fctx, &prefs, ress, g_dstName, g_srcName);
    }
#endif
    REACH("fio: returned");
    CLAIM(g_misarm == 0, "C19 fio: the delete-on-interrupt handler is armed only for a destination this call has opened and not yet closed");
    if (g_t_srcRemoved) {
        REACH("fio: source removed");
        CLAIM(prefs.removeSrcFile && g_srcName != inMark, "C19 fio: the source is removed only with --rm and never when it is stdin");
        CLAIM(g_t_codec != 0 && g_codecResult == 0 && g_t_codec < g_t_srcRemoved, "C19 fio: the source is removed only after the codec reported success");
        CLAIM(!g_dstIsOurs || (g_t_dstClosed != 0 && g_dstCloseOK && g_t_dstClosed < g_t_srcRemoved), "C19 fio: the source is removed only after the destination this call opened was closed without error");
        CLAIM(g_t_dstRemoved == 0, "C19 fio: the destination is not removed when the source is");
        CLAIM(g_srcOpen == 0, "C19 fio: the source is closed before it is removed");
    }
    if (result == 0) {
        REACH("fio: success reported");
        CLAIM(g_t_dstRemoved == 0, "C19 fio: after a success the destination is never removed");
        CLAIM(g_t_codec == 0 || g_codecResult == 0, "C19 fio: success is reported only if the codec succeeded");
        CLAIM(!g_dstIsOurs || (g_t_dstClosed && g_dstCloseOK), "C19 fio: success is reported only if the destination this call opened was closed without error");
    } else {
        REACH("fio: failure reported");
        CLAIM(!g_dstIsOurs || g_dstName == outMark || g_t_dstRemoved != 0 || (g_t_codec != 0 && g_codecResult == 0 && g_dstCloseOK),
              "C19 fio: a failed operation removes the destination it created (never stdout); the only destination left behind by a call that reports failure is a complete, successfully closed one (closing or removing the SOURCE failed afterwards)");
        CLAIM(g_dstName != outMark || g_t_dstRemoved == 0, "C19 fio: stdout is never removed");
        CLAIM(g_t_srcRemoved == 0 || ONLY_WHICH == 1, "C19 fio: after a failed compression the source is still there");
    }
    CLAIM(g_handler == 0 || g_t_srcRemoved == 0, "C19 fio: handler never left armed past the removal of the source");
    CLAIM(!g_dstIsOurs || g_t_dstClosed != 0, "C19 fio: a destination opened by this call is closed by this call");
}
