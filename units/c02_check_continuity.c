/*UNIT
{"props": ["C02","C04"], "kind": "K2", "tier": "quick", "timeout": 300,
 "functions": ["ZSTD_checkContinuity"],
 "floor": 10,
 "assumes": ["history geometry of a live DCtx: prefixStart <= previousDstEnd inside one output object; the new destination is any position of another (or the same) object"],
 "what": "decoder history continuity across user buffers: when the next output does not start where the previous one ended (and is non-empty), the previous segment becomes the external dictionary with exactly its old extent (dictEnd = old end, virtualStart placed so that distances into it are unchanged) and the new prefix starts at the new destination; otherwise nothing changes"}
*/
#include "verif.h"
#include "lib/common/error_private.c"
#include "lib/common/zstd_common.c"
#undef FSE_isError
#undef HUF_isError
#include "lib/common/entropy_common.c"
#include "lib/common/fse_decompress.c"
#include "lib/decompress/zstd_decompress_block.c"

void harness(void)
{
    static ZSTD_DCtx d;
    IN(vsz, S); IN(vsz, p); IN(vsz, e); IN(vsz, S2); IN(vsz, o2); IN(vsz, n); IN(vint, same);
    BYTE *out1, *out2; const BYTE* dst;
    ASSUME(S <= ((size_t)1 << 32) && p <= e && e <= S && S2 <= ((size_t)1 << 32) && o2 <= S2);
    out1 = (BYTE*)malloc(S); out2 = (BYTE*)malloc(S2); ASSUME(out1 && out2);
    d.prefixStart = out1 + p; d.previousDstEnd = out1 + e; d.virtualStart = out1 + p; d.dictEnd = NULL;
    dst = same ? (const BYTE*)(out1 + e) : (const BYTE*)(out2 + o2);
    ZSTD_checkContinuity(&d, dst, n);
    if (same || n == 0) {
        REACH("continuity: contiguous or empty");
        CLAIM(d.prefixStart == (const void*)(out1 + p) && d.previousDstEnd == (const void*)(out1 + e) && d.dictEnd == NULL, "C02 continuity: a contiguous (or empty) output changes nothing");
    } else {
        REACH("continuity: new segment");
        CLAIM(d.dictEnd == (const void*)(out1 + e), "C02 continuity: the previous segment becomes the external dictionary, ending where it ended");
        CLAIM(d.prefixStart == (const void*)dst && d.previousDstEnd == (const void*)dst, "C02 continuity: the new prefix starts (empty) at the new destination");
        CLAIM((const char*)d.virtualStart + (e - p) == (const char*)dst, "C02/C04 continuity: the virtual start lies exactly the old history length before the new prefix (match distances are preserved)");
    }
}
