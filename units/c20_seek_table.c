/*UNIT
{"props": ["C20"], "kind": "K2", "tier": "quick", "timeout": 600,
 "replay": true,
 "functions": ["ZSTD_seekTable_getFrameCompressedOffset","ZSTD_seekTable_getFrameDecompressedOffset","ZSTD_seekTable_getFrameCompressedSize","ZSTD_seekTable_getFrameDecompressedSize","ZSTD_seekTable_getNumFrames","ZSTD_seekable_read_buff","ZSTD_seekable_seek_buff"],
 "floor": 40,
 "assumes": ["seek table data invariant (established by ZSTD_seekable_loadSeekTable, unit c20_seek_load): entries has tableLen+1 elements, entries[0].dOffset == 0, tableLen < 2^27 + 1",
             "ZSTD_seekable_read_buff is only called by the library with n <= SEEKABLE_BUFF_SIZE and pos <= size"],
 "what": "every accessor returns the error value for frameIndex >= numFrames and otherwise reads inside the table; in-memory reader/seeker keep pos <= size and never read outside the buffer"}
*/
#include "verif.h"
#include "contrib/seekable_format/zstdseek_decompress.c"

void harness(void)
{
    IN(vint, which); IN(vsz, tableLen); IN(vu64, pos); IN(vu32, frameIndex);
    ZSTD_seekTable st;
    ASSUME(tableLen <= ZSTD_SEEKABLE_MAXFRAMES);
    st.tableLen = tableLen;
    st.entries = (seekEntry_t*)malloc(sizeof(seekEntry_t) * (tableLen + 1));
    ASSUME(st.entries != NULL);
    ASSUME(st.entries[0].dOffset == 0);

    if (which == 1) {
        unsigned long long const v = ZSTD_seekTable_getFrameCompressedOffset(&st, frameIndex);
        if (frameIndex >= tableLen) CLAIM(v == ZSTD_SEEKABLE_FRAMEINDEX_TOOLARGE, "C20 seek: compressed-offset accessor rejects index >= numFrames");
        else CLAIM(v == st.entries[frameIndex].cOffset, "C20 seek: compressed-offset accessor returns the table entry");
    } else if (which == 2) {
        unsigned long long const v = ZSTD_seekTable_getFrameDecompressedOffset(&st, frameIndex);
        if (frameIndex >= tableLen) CLAIM(v == ZSTD_SEEKABLE_FRAMEINDEX_TOOLARGE, "C20 seek: decompressed-offset accessor rejects index >= numFrames");
        else CLAIM(v == st.entries[frameIndex].dOffset, "C20 seek: decompressed-offset accessor returns the table entry");
    } else if (which == 3) {
        size_t const v = ZSTD_seekTable_getFrameCompressedSize(&st, frameIndex);
        if (frameIndex >= tableLen) CLAIM(v == ERROR(frameIndex_tooLarge), "C20 seek: compressed-size accessor rejects index >= numFrames");
        else CLAIM(v == st.entries[frameIndex + 1].cOffset - st.entries[frameIndex].cOffset, "C20 seek: compressed size is the offset difference");
    } else if (which == 4) {
        size_t const v = ZSTD_seekTable_getFrameDecompressedSize(&st, frameIndex);
        if (frameIndex >= tableLen) { REACH("seek: dsize index too large"); CLAIM(v == ERROR(frameIndex_tooLarge), "C20 seek: decompressed-size accessor rejects index >= numFrames"); }
        else CLAIM(v == st.entries[frameIndex + 1].dOffset - st.entries[frameIndex].dOffset, "C20 seek: decompressed size is the offset difference");
    } else if (which == 5) {
        CLAIM(ZSTD_seekTable_getNumFrames(&st) == tableLen, "C20 seek: number of frames");
    } else {
        /* in-memory reader */
        IN(vsz, size); IN(vsz, p0); IN(vsz, n); IN(vu64, off); IN(vint, origin); IN(vint, doSeek);
        buffWrapper_t bw;
        BYTE dstbuf[64];
        ASSUME(size <= ((size_t)1 << 40) && p0 <= size);
        bw.ptr = malloc(size); ASSUME(bw.ptr != NULL); bw.size = size; bw.pos = p0;
        if (doSeek) {
            int rc;
            /* call sites: SEEK_SET with a table offset (< 2^59), SEEK_END with minus a frame/footer size */
            ASSUME((origin == SEEK_SET && (long long)off >= 0) || (origin == SEEK_END && (long long)off <= 0 && (long long)off >= -((long long)1 << 33)));
            rc = ZSTD_seekable_seek_buff(&bw, (long long)off, origin);
            CLAIM(bw.pos <= bw.size, "C20 seek: in-memory seek keeps pos <= size");
            if (rc != 0) CLAIM(bw.pos == p0, "C20 seek: failed seek does not move");
        } else {
            int rc;
            ASSUME(n <= sizeof(dstbuf));
            rc = ZSTD_seekable_read_buff(&bw, dstbuf, n);
            CLAIM(bw.pos <= bw.size, "C20 seek: in-memory read keeps pos <= size");
            if (rc == 0) { REACH("seek: read ok"); CLAIM(bw.pos == p0 + n, "C20 seek: read advances by n"); }
            else CLAIM(bw.pos == p0 && p0 + n > size, "C20 seek: short read is refused without moving");
        }
    }
}
