/*UNIT
{"props": ["C12"], "kind": "K4", "tier": "quick", "timeout": 600,
 "defines": ["ZSTD_MULTITHREAD"],
 "loop_contracts": true,
 "functions": ["POOL_add","POOL_tryAdd","POOL_add_internal","isQueueFull","POOL_joinJobs","POOL_resize","POOL_resize_internal"],
 "floor": 100,
 "assumes": ["mutual exclusion: pthread_mutex_lock gives exclusive access to the protected fields (stub: asserts the lock is not already held by this thread, havocs the protected fields and assumes the monitor invariant I_pool); every release point (unlock, cond_wait) must re-establish I_pool; cond_signal/broadcast are no-ops",
             "every access to the protected fields happens under the queue mutex (not checked here)",
             "queued jobs carry valid function pointers (they were supplied by posters)",
             "queueSize <= 4096 (symbolic); thread creation in POOL_resize_internal stubbed (may fail)"],
 "what": "monitor-invariant proof of the thread pool: every critical section of POOL_add / POOL_tryAdd / POOL_joinJobs / POOL_resize / POOL_thread preserves I_pool (indices in range, empty flag <=> head==tail, ghost accepted-dequeued == number of queued jobs), so for any interleaving of critical sections no job is lost or duplicated and no queue access is out of bounds; a worker executes each job it dequeues exactly once before touching the queue again; tryAdd returning 0 leaves the queue unchanged, 1 adds exactly one job"}
*/
#include "verif.h"
#include "lib/common/pool.c"

struct zstd_verif_monitor_s zstd_verif_monitor;
#define M zstd_verif_monitor
static POOL_ctx* g_pool;

static void stub_job(void* opaque)
{
    __CPROVER_assert(M.held == 0, "C12 pool: jobs run without the queue mutex held");
    __CPROVER_assert(M.pending_call == 1 && opaque == M.popped_opaque, "C12 pool: the job executed is the job just dequeued, and it has not been executed before");
    M.pending_call = 0;
    M.executed++;
}

void zstd_verif_pool_accepted(void* ctx) { (void)ctx; M.accepted++; }
void zstd_verif_pool_dequeued(void* ctx, void* opaque)
{
    (void)ctx;
    __CPROVER_assert(M.pending_call == 0, "C12 pool: a worker holds at most one dequeued job");
    M.dequeued++; M.pending_call = 1; M.popped_opaque = opaque;
}

static void havoc_protected(void)
{
    POOL_ctx* const c = g_pool;
    c->queueHead = nondet_vsz(); c->queueTail = nondet_vsz(); c->queueEmpty = nondet_vint();
    c->numThreadsBusy = nondet_vsz(); c->threadLimit = nondet_vsz(); c->shutdown = nondet_vint();
    __CPROVER_havoc_object(c->queue);
    M.accepted = nondet_vu64(); M.dequeued = nondet_vu64();
    __CPROVER_assume(ZSTD_VERIF_POOL_INV(c));
    __CPROVER_assume(c->shutdown == 0 || c->shutdown == 1);
    /* queued jobs are valid */
    if (!c->queueEmpty) __CPROVER_assume(c->queue[c->queueHead].function == stub_job);
}

int pthread_mutex_lock(pthread_mutex_t* m)
{
    __CPROVER_assert(m == &g_pool->queueMutex, "C12 pool: only the queue mutex is used");
    __CPROVER_assert(M.held == 0, "C12 pool: the queue mutex is never taken twice by one thread (self-deadlock)");
    __CPROVER_assert(M.pending_call == 0, "C12 pool: a worker never goes back to the queue with an unexecuted job");
    M.held = 1;
    havoc_protected();
    M.snap_accepted = M.accepted;
    return 0;
}
int pthread_mutex_unlock(pthread_mutex_t* m)
{
    __CPROVER_assert(m == &g_pool->queueMutex && M.held == 1, "C12 pool: unlock only by the holder");
    __CPROVER_assert(ZSTD_VERIF_POOL_INV(g_pool), "C12 pool: monitor invariant re-established before the mutex is released");
    M.held = 0;
    return 0;
}
int pthread_cond_wait(pthread_cond_t* cnd, pthread_mutex_t* m)
{
    (void)cnd;
    __CPROVER_assert(m == &g_pool->queueMutex && M.held == 1, "C12 pool: cond_wait with the queue mutex held");
    __CPROVER_assert(ZSTD_VERIF_POOL_INV(g_pool), "C12 pool: monitor invariant holds when a waiter releases the mutex");
    havoc_protected();
    M.snap_accepted = M.accepted;
    return 0;
}
int pthread_cond_signal(pthread_cond_t* c) { (void)c; return 0; }
int pthread_cond_broadcast(pthread_cond_t* c) { (void)c; return 0; }
int pthread_create(pthread_t* t, const pthread_attr_t* a, void* (*f)(void*), void* arg) { (void)t; (void)a; (void)f; (void)arg; return nondet_vint(); }

void harness(void)
{
    IN(vint, which); IN(vsz, qsize); IN(vsz, nthreads); IN(vsz, tcap);
#ifdef ONLY_WHICH
    ASSUME(which == ONLY_WHICH);
#else
    ASSUME(which >= 0 && which <= 4);      /* the worker loop (which == 5) is unit c12_pool_worker */
#endif
    POOL_ctx* const ctx = (POOL_ctx*)malloc(sizeof(POOL_ctx));
    void* const arg = malloc(1);
    ASSUME(ctx != NULL && arg != NULL);
    ASSUME(qsize >= 1 && qsize <= ZSTD_VERIF_POOL_MAXQ);
    ctx->queueSize = qsize;
    ctx->queue = (POOL_job*)malloc(qsize * sizeof(POOL_job));
    ASSUME(ctx->queue != NULL);
    ctx->customMem.customAlloc = NULL; ctx->customMem.customFree = NULL; ctx->customMem.opaque = NULL;
    /* the thread array and its capacity are only changed by POOL_resize itself (single owner) */
    ASSUME(tcap >= 1 && tcap <= 1024);
    ctx->threadCapacity = tcap;
    ctx->threads = (ZSTD_pthread_t*)malloc(tcap * sizeof(ZSTD_pthread_t));
    ASSUME(ctx->threads != NULL);
    g_pool = ctx;
    M.held = 0; M.pending_call = 0; M.executed = 0;

    if (which == 0) {
        POOL_add(ctx, stub_job, arg);
        REACH("pool: add returned");
        CLAIM(M.held == 0, "C12 pool: POOL_add releases the mutex");
        CLAIM(ctx->shutdown || M.accepted == M.snap_accepted + 1, "C12 pool: a blocking post adds exactly one job (unless shutting down)");
    } else if (which == 1) {
        int const r = POOL_tryAdd(ctx, stub_job, arg);
        CLAIM(M.held == 0, "C12 pool: POOL_tryAdd releases the mutex");
        if (r == 0) { REACH("pool: tryAdd refused"); CLAIM(M.accepted == M.snap_accepted, "C12 pool: a refused non-blocking post adds nothing"); }
        else { REACH("pool: tryAdd accepted"); CLAIM(r == 1 && (ctx->shutdown || M.accepted == M.snap_accepted + 1), "C12 pool: an accepted non-blocking post adds exactly one job"); }
    } else if (which == 2) {
        /* POOL_add_internal under the lock: where the job goes */
        size_t oldTail, k; POOL_job before;
        M.held = 1; havoc_protected();
        ASSUME(!isQueueFull(ctx) && !ctx->shutdown);
        oldTail = ctx->queueTail; k = nondet_vsz(); ASSUME(k < qsize && k != oldTail); before = ctx->queue[k];
        {   unsigned long const acc0 = M.accepted; size_t const head0 = ctx->queueHead;
            POOL_add_internal(ctx, stub_job, arg);
            REACH("pool: add_internal");
            CLAIM(ctx->queue[oldTail].function == stub_job && ctx->queue[oldTail].opaque == arg, "C12 pool: the job is stored at the old tail");
            CLAIM(ctx->queueTail == (oldTail + 1) % qsize && ctx->queueHead == head0 && ctx->queueEmpty == 0, "C12 pool: tail advances by one, head untouched, queue non-empty");
            CLAIM(ctx->queue[k].function == before.function && ctx->queue[k].opaque == before.opaque, "C12 pool: every other slot is untouched (no queued job overwritten)");
            CLAIM(M.accepted == acc0 + 1 && ZSTD_VERIF_POOL_INV(ctx), "C12 pool: invariant holds after the insertion");
        }
    } else if (which == 3) {
        POOL_joinJobs(ctx);
        REACH("pool: joinJobs returned");
        CLAIM(M.held == 0, "C12 pool: POOL_joinJobs releases the mutex");
    } else if (which == 4) {
        int r;
        size_t const head0 = 0;
        ASSUME(nthreads <= 2048);
        r = POOL_resize(ctx, nthreads);
        (void)head0;
        CLAIM(M.held == 0, "C12 pool: POOL_resize releases the mutex");
        if (r == 0) { REACH("pool: resized"); CLAIM(ctx->threadLimit == nthreads && nthreads >= 1 && ctx->threadCapacity >= nthreads, "C12 pool: resize sets the limit within the capacity"); }
        else { REACH("pool: resize failed"); CLAIM(ctx->threadLimit >= 1 && ctx->threadLimit <= ctx->threadCapacity, "C12 pool: failed resize keeps a usable limit"); }
        CLAIM(M.accepted == M.snap_accepted, "C12 pool: resizing never adds or drops queued jobs");
    } else {
#ifdef ONLY_WHICH
        void* const r = POOL_thread(ctx);
        REACH("pool: worker exits");
        CLAIM(r == (void*)ctx && M.held == 0 && M.pending_call == 0, "C12 pool: a worker exits only on shutdown, without the mutex and without an unexecuted job");
#endif
    }
}
