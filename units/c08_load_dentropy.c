/*UNIT
{"props": ["C08","C03"], "kind": "K2", "tier": "quick", "timeout": 900, "cbmc": ["--unwind", "4", "--sat-solver", "cadical"],
 "functions": ["ZSTD_loadDEntropy"],
 "floor": 40,
 "assumes": ["the three table readers it calls (HUF_readDTableX2_wksp, FSE_readNCount, ZSTD_buildFSETable - defined in other translation units) are stubs: they ASSERT their preconditions (source range inside the dictionary, workspace large enough, table log within the capacity of the destination table, symbol range) and return an error or a size <= what they were given / arbitrary counts; their bodies are units c03_build_seq_table (FSE table build) or not covered (Huffman, FSE_readNCount)",
             "the repcode loop has the constant bound 3 (fully unwound)"],
 "what": "decoder-side dictionary header parser on ARBITRARY dictionary bytes of symbolic length: every read stays inside the dictionary, each table reader is handed exactly what remains, a table description whose log or symbol range exceeds the destination table is refused before the table is built, and on success the three start repcodes are non-zero and not larger than the content that follows the header (so a match at a repcode offset can never reach before the dictionary); the result is an error or the header size <= dictSize"}
*/
#include "verif.h"
#include "lib/common/zstd_internal.h"
#include "lib/decompress/zstd_decompress_internal.h"
#include "lib/decompress/zstd_decompress_block.h"
#include "lib/common/error_private.c"
#include "lib/common/zstd_common.c"
#include "lib/decompress/zstd_ddict.c"
#include "lib/decompress/zstd_decompress.c"

static ZSTD_entropyDTables_t* g_ent; static const BYTE* g_dict; static size_t g_dictSize; static unsigned g_log[3], g_max[3]; static int g_nc;

size_t HUF_readDTableX2_wksp(HUF_DTable* DTable, const void* src, size_t srcSize, void* workSpace, size_t wkspSize, int flags)
{
    (void)flags;
    __CPROVER_assert(DTable == g_ent->hufTable, "C08 dentropy: the Huffman table of the context is the one filled");
    __CPROVER_assert(srcSize == 0 || __CPROVER_r_ok(src, srcSize), "C08 dentropy: the Huffman description handed on lies inside the dictionary");
    __CPROVER_assert((const BYTE*)src == g_dict + 8 && srcSize == g_dictSize - 8, "C08 dentropy: it starts after magic and ID and extends to the end of the dictionary");
    __CPROVER_assert(wkspSize >= HUF_DECOMPRESS_WORKSPACE_SIZE && __CPROVER_w_ok(workSpace, wkspSize), "C08 dentropy: the Huffman reader's workspace is large enough and writable");
    if (nondet_vint()) return ERROR(corruption_detected);
    {   size_t const r = nondet_vsz(); __CPROVER_assume(r <= srcSize); return r; }
}
size_t FSE_readNCount(short* normalizedCounter, unsigned* maxSymbolValuePtr, unsigned* tableLogPtr, const void* rBuffer, size_t rBuffSize)
{
    __CPROVER_assert(rBuffSize == 0 || __CPROVER_r_ok(rBuffer, rBuffSize), "C08 dentropy: the FSE description handed on lies inside the dictionary");
    __CPROVER_assert(__CPROVER_w_ok(normalizedCounter, (*maxSymbolValuePtr + 1) * sizeof(short)), "C08 dentropy: the count array has room for the announced symbol range");
    if (nondet_vint()) return ERROR(corruption_detected);
    *maxSymbolValuePtr = nondet_vu32(); *tableLogPtr = nondet_vu32();
    if (g_nc < 3) { g_max[g_nc] = *maxSymbolValuePtr; g_log[g_nc] = *tableLogPtr; } g_nc++;
    {   size_t const r = nondet_vsz(); __CPROVER_assume(r <= rBuffSize); return r; }
}
void ZSTD_buildFSETable(ZSTD_seqSymbol* dt, const short* normalizedCounter, unsigned maxSymbolValue, const U32* baseValue, const U8* nbAdditionalBits,
                        unsigned tableLog, void* wksp, size_t wkspSize, int bmi2)
{
    unsigned const capLog = dt == g_ent->OFTable ? OffFSELog : dt == g_ent->MLTable ? MLFSELog : LLFSELog;
    unsigned const capSym = dt == g_ent->OFTable ? MaxOff : dt == g_ent->MLTable ? MaxML : MaxLL;
    (void)normalizedCounter; (void)baseValue; (void)nbAdditionalBits; (void)bmi2;
    __CPROVER_assert(dt == g_ent->OFTable || dt == g_ent->MLTable || dt == g_ent->LLTable, "C08 dentropy: one of the three sequence tables of the context is built");
    __CPROVER_assert(tableLog <= capLog, "C08 dentropy: a table log larger than the destination table allows is refused before the table is built");
    __CPROVER_assert(maxSymbolValue <= capSym, "C08 dentropy: a symbol range larger than the code allows is refused before the table is built");
    __CPROVER_assert(wkspSize >= ZSTD_BUILD_FSE_TABLE_WKSP_SIZE && __CPROVER_w_ok(wksp, wkspSize), "C08 dentropy: the table builder's workspace is large enough and writable");
}

void harness(void)
{
    static ZSTD_entropyDTables_t ent;
    IN(vsz, n);
    BYTE* dict; size_t r;
    ASSUME(n <= ((size_t)1 << 32));
    dict = (BYTE*)malloc(n); ASSUME(dict != NULL);
    g_ent = &ent; g_dict = dict; g_dictSize = n; g_nc = 0;
    r = ZSTD_loadDEntropy(&ent, dict, n);
    if (ZSTD_isError(r)) { REACH("dentropy: refused"); return; }
    REACH("dentropy: loaded");
    CLAIM(r <= n && r >= 8 + 12, "C08 dentropy: the header lies inside the dictionary and holds at least magic, ID and three repcodes");
    CLAIM(g_nc == 3, "C08 dentropy: three FSE descriptions are read");
    {   size_t const content = n - r;
        CLAIM(ent.rep[0] >= 1 && ent.rep[0] <= content && ent.rep[1] >= 1 && ent.rep[1] <= content && ent.rep[2] >= 1 && ent.rep[2] <= content,
              "C08 dentropy: every start repcode is non-zero and reaches no further back than the dictionary content");
        CLAIM(MEM_readLE32(dict + r - 12) == ent.rep[0] && MEM_readLE32(dict + r - 8) == ent.rep[1] && MEM_readLE32(dict + r - 4) == ent.rep[2],
              "C08 dentropy: the repcodes are the last 12 bytes of the header, little-endian");
    }
}
