/*UNIT
{"props": ["C10"], "kind": "K1", "tier": "quick", "timeout": 1200,
 "loop_contracts": true, "cbmc": ["--unwind", "20", "--sat-solver", "cadical"],
 "extra_src": ["stubs/mem_ranges.c"], "defines": ["VERIF_MEM_HAVOC_SLICE"],
 "replace": ["ZSTD_compressContinue_public", "ZSTD_compressEnd_public", "ZSTD_CCtx_reset"],
 "functions": ["ZSTD_compressStream_generic", "ZSTD_limitCopy", "ZSTD_nextInputSizeHint", "ZSTD_compressBound"],
 "floor": 150,
 "assumes": ["buffered mode (the default): input and output staging buffers inside the context; the stable-buffer modes are not covered",
             "ZSTD_compressContinue_public / ZSTD_compressEnd_public replaced by ASSUMED contracts: REQUIRES (asserted) dst[0..cap) writable and src[0..n) readable; ENSURES an error or a size <= cap; ghost effect: n bytes were handed to the block-level compressor (which, per the format, emits complete blocks for everything it is handed: units c06_frame_chunk, c09_compress_end)",
             "ZSTD_CCtx_reset(session_only) replaced by a contract: returns the stream stage to init, clears the pledged size",
             "staging invariant at entry as ZSTD_resetCStream / the previous call leave it (it is the loop invariant, so it is re-proved for the state the call leaves behind)",
             "user buffers and staging buffers are four separate objects; memcpy abstracted (ranges asserted)"],
 "what": "stage loop of the streaming compressor, any number of rounds (loop contract): cursors stay inside the user's buffers, staging indices stay ordered and inside the staging buffers, every block-level call gets a source inside the staging input buffer and a destination inside dst or the staging output buffer; every byte accepted from the user is either still pending or has been handed to the block-level compressor exactly once; FLUSH COMPLETENESS: when a flush (or end) directive returns with nothing left in the staging output buffer, all input offered was consumed and no accepted byte is still waiting uncompressed - so what has been output covers every byte consumed; PROGRESS: a call given input and output space consumes or produces something"}
*/
#include "verif.h"
#include "lib/compress/zstd_compress_internal.h"

#define BLOCK_LEVEL_CONTRACT \
__CPROVER_requires(cctx != NULL && (dstCapacity == 0 || __CPROVER_w_ok(dst, dstCapacity)) && (srcSize == 0 || __CPROVER_r_ok(src, srcSize))) \
__CPROVER_assigns(__CPROVER_object_whole(dst), ZSTD_VERIF_GHOST_FRAME) \
__CPROVER_ensures(ZSTD_isError(__CPROVER_return_value) || __CPROVER_return_value <= dstCapacity) \
__CPROVER_ensures(zstd_verif_ghost.cs_compressed == __CPROVER_old(zstd_verif_ghost.cs_compressed) + srcSize && zstd_verif_ghost.cs_loaded == __CPROVER_old(zstd_verif_ghost.cs_loaded))
size_t ZSTD_compressContinue_public(ZSTD_CCtx* cctx, void* dst, size_t dstCapacity, const void* src, size_t srcSize)
BLOCK_LEVEL_CONTRACT ;
size_t ZSTD_compressEnd_public(ZSTD_CCtx* cctx, void* dst, size_t dstCapacity, const void* src, size_t srcSize)
BLOCK_LEVEL_CONTRACT ;
size_t ZSTD_CCtx_reset(ZSTD_CCtx* cctx, ZSTD_ResetDirective reset)
__CPROVER_requires(cctx != NULL && reset == ZSTD_reset_session_only)
__CPROVER_assigns(cctx->streamStage, cctx->pledgedSrcSizePlusOne)
__CPROVER_ensures(cctx->streamStage == zcss_init && cctx->pledgedSrcSizePlusOne == 0 && __CPROVER_return_value == 0)
;
#include "lib/common/error_private.c"
#include "lib/common/zstd_common.c"
#include "lib/compress/zstd_compress.c"

void harness(void)
{
    static ZSTD_CCtx cobj;
    ZSTD_CCtx* const z = &cobj;
    IN(vsz, isize); IN(vsz, ipos); IN(vsz, osize); IN(vsz, opos); IN(vint, mode); IN(vint, stage);
    IN(vsz, inBuffSize); IN(vsz, outBuffSize); IN(vsz, blockSize); IN(vsz, inToCompress); IN(vsz, inBuffPos); IN(vsz, inBuffTarget); IN(vsz, content); IN(vsz, flushed);
    ZSTD_inBuffer in; ZSTD_outBuffer out; size_t r;
    ASSUME(isize <= ((size_t)1 << 30) && ipos <= isize && osize <= ((size_t)1 << 30) && opos <= osize);
    ASSUME(mode == ZSTD_e_continue || mode == ZSTD_e_flush || mode == ZSTD_e_end);
    ASSUME(stage == zcss_load || stage == zcss_flush);
    ASSUME(blockSize >= 1 && blockSize <= ZSTD_BLOCKSIZE_MAX && inBuffSize <= ((size_t)1 << 30) && outBuffSize <= ((size_t)1 << 30) && outBuffSize >= 1 && inBuffSize >= blockSize);   /* ZSTD_resetCCtx_internal sizes the input staging buffer as window + block */
    /* staging invariant (= loop invariant) */
    ASSUME(inToCompress <= inBuffPos && inBuffPos < inBuffTarget && inBuffTarget <= inBuffSize && inBuffTarget - inToCompress <= blockSize + 1);
    ASSUME(flushed <= content && content <= outBuffSize && (stage != zcss_load || (content == 0 && flushed == 0)));
    in.src = malloc(isize); in.size = isize; in.pos = ipos;
    out.dst = malloc(osize); out.size = osize; out.pos = opos;
    z->inBuff = (char*)malloc(inBuffSize); z->outBuff = (char*)malloc(outBuffSize);
    ASSUME(in.src != NULL && out.dst != NULL && z->inBuff != NULL && z->outBuff != NULL);
    z->inBuffSize = inBuffSize; z->outBuffSize = outBuffSize; z->blockSize = blockSize;
    z->inToCompress = inToCompress; z->inBuffPos = inBuffPos; z->inBuffTarget = inBuffTarget;
    z->outBuffContentSize = content; z->outBuffFlushedSize = flushed; z->streamStage = (ZSTD_cStreamStage)stage;
    z->frameEnded = 0; z->stableIn_notConsumed = 0;
    z->appliedParams.inBufferMode = ZSTD_bm_buffered; z->appliedParams.outBufferMode = ZSTD_bm_buffered;
    zstd_verif_ghost.cs_compressed = nondet_vu64(); ASSUME(zstd_verif_ghost.cs_compressed <= ((vu64)1 << 40));
    zstd_verif_ghost.cs_loaded = zstd_verif_ghost.cs_compressed + (inBuffPos - inToCompress);          /* pending bytes = loaded - compressed */
    {   unsigned long long const loaded0 = zstd_verif_ghost.cs_loaded;
        r = ZSTD_compressStream_generic(z, &out, &in, (ZSTD_EndDirective)mode);
        if (ZSTD_isError(r)) { REACH("cstream: error"); return; }
        REACH("cstream: returned");
        CLAIM(in.pos >= ipos && in.pos <= isize && out.pos >= opos && out.pos <= osize, "C10 cstream: positions only advance and stay inside the user's buffers");
        CLAIM(zstd_verif_ghost.cs_loaded == loaded0 + (in.pos - ipos), "C10 cstream: every byte consumed from the user is accounted as accepted");
        CLAIM(zstd_verif_ghost.cs_loaded - zstd_verif_ghost.cs_compressed == z->inBuffPos - z->inToCompress, "C10 cstream: every accepted byte is either pending in the staging buffer or was handed to the block compressor, exactly once");
        if (mode != ZSTD_e_continue && z->outBuffContentSize == z->outBuffFlushedSize) {
            REACH("cstream: flush completed");
            CLAIM(in.pos == isize, "C10 cstream: a completed flush has consumed all the input offered");
            CLAIM(z->frameEnded || z->inBuffPos == z->inToCompress, "C10 cstream: after a completed flush no accepted byte is still waiting uncompressed");
            CLAIM(zstd_verif_ghost.cs_compressed == zstd_verif_ghost.cs_loaded, "C10 cstream: after a completed flush every byte consumed so far has gone through the block compressor (and its output has been delivered)");
            if (mode == ZSTD_e_end) CLAIM(z->frameEnded == 1 && r == 0, "C10 cstream: a completed end directive ends the frame");
        }
        if (ipos < isize && opos < osize) {
            REACH("cstream: had input and room");
            CLAIM(in.pos > ipos || out.pos > opos, "C10 cstream: a call given consumable input and writable output makes progress");
        }
    }
}
