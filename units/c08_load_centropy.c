/*UNIT
{"props": ["C08","C17"], "kind": "K2", "tier": "quick", "timeout": 1200, "cbmc": ["--unwind", "55", "--sat-solver", "cadical"],
 "functions": ["ZSTD_loadCEntropy", "ZSTD_dictNCountRepeat"],
 "floor": 40,
 "assumes": ["the table readers it calls (HUF_readCTable, FSE_readNCount, FSE_buildCTable_wksp - defined in other translation units) are stubs that ASSERT their preconditions and return an error or a size <= what they were given; FSE_readNCount's stub returns arbitrary counts with a symbol range <= the capacity passed in (its documented guarantee, not verified here)",
             "dictSize >= 8 (every caller checks it before: ZSTD_compress_insertDictionary, ZSTD_initCDict_internal, ZDICT)",
             "ZSTD_dictNCountRepeat's loop is bounded by the symbol range <= 52: fully unwound (unwinding assertion)"],
 "what": "compressor-side dictionary header parser on ARBITRARY dictionary bytes of symbolic length >= 8: every read stays inside the dictionary, each table reader gets exactly what remains, a table log beyond the destination table is refused before the table is built, on success the three start repcodes are non-zero and within the content that follows; and the 'usable without check' marks are only given when justified: the Huffman table only if it has no zero weight and covers all 256 symbols, an FSE table only if its description covers the whole required symbol range (for offsets: every offset code up to the one needed for content size + 128 KB)"}
*/
#include "verif.h"
#include "lib/compress/zstd_compress_internal.h"
#include "lib/common/error_private.c"
#include "lib/common/zstd_common.c"
#include "lib/compress/zstd_compress.c"

static ZSTD_compressedBlockState_t* g_bs; static const BYTE* g_dict; static size_t g_dictSize; static void* g_wksp;
static unsigned g_hufZero, g_hufMax, g_max[3]; static int g_nc;

size_t HUF_readCTable(HUF_CElt* CTable, unsigned* maxSymbolValuePtr, const void* src, size_t srcSize, unsigned* hasZeroWeights)
{
    __CPROVER_assert((void*)CTable == (void*)g_bs->entropy.huf.CTable && *maxSymbolValuePtr == 255, "C08 centropy: the Huffman table of the block state is filled, for the full byte alphabet");
    __CPROVER_assert((const BYTE*)src == g_dict + 8 && srcSize == g_dictSize - 8, "C08 centropy: the Huffman description starts after magic and ID and extends to the end of the dictionary");
    *maxSymbolValuePtr = nondet_vu32(); __CPROVER_assume(*maxSymbolValuePtr <= 255);
    *hasZeroWeights = nondet_vu32() & 1;
    g_hufZero = *hasZeroWeights; g_hufMax = *maxSymbolValuePtr;
    if (nondet_vint()) return ERROR(corruption_detected);
    {   size_t const r = nondet_vsz(); __CPROVER_assume(r <= srcSize); return r; }
}
size_t FSE_readNCount(short* normalizedCounter, unsigned* maxSymbolValuePtr, unsigned* tableLogPtr, const void* rBuffer, size_t rBuffSize)
{
    unsigned const capacity = *maxSymbolValuePtr;
    __CPROVER_assert(rBuffSize == 0 || __CPROVER_r_ok(rBuffer, rBuffSize), "C08 centropy: the FSE description handed on lies inside the dictionary");
    __CPROVER_assert(capacity <= MaxML && __CPROVER_w_ok(normalizedCounter, (capacity + 1) * sizeof(short)), "C08 centropy: the count array has room for the announced symbol range");
    if (nondet_vint()) return ERROR(corruption_detected);
    *maxSymbolValuePtr = nondet_vu32(); __CPROVER_assume(*maxSymbolValuePtr <= capacity);      /* FSE_readNCount never reports more symbols than it was given room for */
    *tableLogPtr = nondet_vu32();
    if (g_nc < 3) g_max[g_nc] = *maxSymbolValuePtr; g_nc++;
    {   size_t const r = nondet_vsz(); __CPROVER_assume(r <= rBuffSize); return r; }
}
size_t FSE_buildCTable_wksp(FSE_CTable* ct, const short* normalizedCounter, unsigned maxSymbolValue, unsigned tableLog, void* workSpace, size_t wkspSize)
{
    unsigned const capLog = ct == g_bs->entropy.fse.offcodeCTable ? OffFSELog : ct == g_bs->entropy.fse.matchlengthCTable ? MLFSELog : LLFSELog;
    unsigned const capSym = ct == g_bs->entropy.fse.offcodeCTable ? MaxOff : ct == g_bs->entropy.fse.matchlengthCTable ? MaxML : MaxLL;
    (void)normalizedCounter;
    __CPROVER_assert(ct == g_bs->entropy.fse.offcodeCTable || ct == g_bs->entropy.fse.matchlengthCTable || ct == g_bs->entropy.fse.litlengthCTable, "C08 centropy: one of the three sequence tables of the block state is built");
    __CPROVER_assert(tableLog <= capLog && maxSymbolValue <= capSym, "C08 centropy: a table log or symbol range beyond the destination table is refused before the table is built");
    __CPROVER_assert(workSpace == g_wksp && wkspSize == HUF_WORKSPACE_SIZE, "C08 centropy: the caller's workspace is used");
    return nondet_vint() ? ERROR(GENERIC) : 0;
}

void harness(void)
{
    static ZSTD_compressedBlockState_t bs;
    IN(vsz, n);
    BYTE* dict; size_t r;
    ASSUME(n >= 8 && n <= ((size_t)1 << 33));
    dict = (BYTE*)malloc(n); g_wksp = malloc(HUF_WORKSPACE_SIZE); ASSUME(dict != NULL && g_wksp != NULL);
    g_bs = &bs; g_dict = dict; g_dictSize = n; g_nc = 0;
    r = ZSTD_loadCEntropy(&bs, g_wksp, dict, n);
    if (ZSTD_isError(r)) { REACH("centropy: refused"); return; }
    REACH("centropy: loaded");
    CLAIM(r <= n && r >= 8 + 12 && g_nc == 3, "C08 centropy: the header lies inside the dictionary and holds magic, ID, three FSE descriptions and three repcodes");
    {   size_t const content = n - r;
        CLAIM(bs.rep[0] >= 1 && bs.rep[0] <= content && bs.rep[1] >= 1 && bs.rep[1] <= content && bs.rep[2] >= 1 && bs.rep[2] <= content,
              "C08/C17 centropy: every start repcode is non-zero and reaches no further back than the dictionary content");
        CLAIM(bs.entropy.huf.repeatMode == HUF_repeat_check || (bs.entropy.huf.repeatMode == HUF_repeat_valid && !g_hufZero && g_hufMax == 255),
              "C08 centropy: the Huffman table is marked usable-without-check only if it has no zero weight and covers all 256 symbols");
        CLAIM(bs.entropy.fse.matchlength_repeatMode == FSE_repeat_check || (bs.entropy.fse.matchlength_repeatMode == FSE_repeat_valid && g_max[1] >= MaxML),
              "C08 centropy: the match-length table is marked valid only if its description covers every match-length code");
        CLAIM(bs.entropy.fse.litlength_repeatMode == FSE_repeat_check || (bs.entropy.fse.litlength_repeatMode == FSE_repeat_valid && g_max[2] >= MaxLL),
              "C08 centropy: the literal-length table is marked valid only if its description covers every literal-length code");
        {   unsigned const need = content <= ((U32)-1) - (128 KB) ? ZSTD_highbit32((U32)content + (128 KB)) : MaxOff;
            CLAIM(bs.entropy.fse.offcode_repeatMode == FSE_repeat_check || (bs.entropy.fse.offcode_repeatMode == FSE_repeat_valid && g_max[0] >= (need < MaxOff ? need : MaxOff)),
                  "C08 centropy: the offset-code table is marked valid only if it covers every offset code needed for offsets up to content size + 128 KB");
        }
    }
}
