/*UNIT
{"props": ["C15"], "kind": "K5", "tier": "quick", "timeout": 600,
 "bounded": "one chunk (srcSize <= 1 MiB, i.e. one iteration of the chunk loop of ZSTD_ldm_generateSequences); window indices, parameters and table size symbolic",
 "replace": ["ZSTD_ldm_reduceTable", "ZSTD_ldm_generateSequences_internal"],
 "cbmc": ["--unwind", "12"],
 "functions": ["ZSTD_ldm_generateSequences","ZSTD_window_needOverflowCorrection","ZSTD_window_correctOverflow","ZSTD_window_enforceMaxDist"],
 "floor": 40,
 "assumes": ["ZSTD_ldm_reduceTable replaced by its contract: REQUIRES that it is given the whole hash table (size == number of entries of the table object) — the caller obligation this unit is about",
             "ZSTD_ldm_generateSequences_internal replaced by its contract (assumed): error or leftover <= chunk size",
             "LDM parameters as ZSTD_ldm_adjustParameters leaves them: 6 <= hashLog <= 30, bucketSizeLog <= min(8, hashLog), 10 <= windowLog <= 31; hash table object has exactly 2^hashLog entries",
             "window invariant and index bound as in c15_overflow"],
 "what": "LDM window overflow correction: when the LDM window is rebased, the index reduction is applied to the WHOLE LDM hash table (all 2^hashLog entries) with exactly the correction that was applied to the window, and the dictionary is invalidated"}
*/
#include "verif.h"
#include "lib/common/error_private.c"
#include "lib/common/zstd_common.c"
#include "lib/compress/zstd_compress_internal.h"
#include "lib/compress/zstd_ldm.h"
#include "lib/compress/zstd_ldm.c"

static void ZSTD_ldm_reduceTable(ldmEntry_t* const table, U32 const size, U32 const reducerValue)
__CPROVER_requires(table != NULL && __CPROVER_POINTER_OFFSET(table) == 0)
__CPROVER_requires((size_t)size * sizeof(ldmEntry_t) == __CPROVER_OBJECT_SIZE(table))      /* every entry of the table is rebased */
__CPROVER_assigns(__CPROVER_object_whole(table), zstd_verif_ghost.cell_old)
__CPROVER_ensures(zstd_verif_ghost.cell_old == reducerValue)                                /* ghost: the correction that was applied to the table */
;
static size_t ZSTD_ldm_generateSequences_internal(ldmState_t* ldmState, rawSeqStore_t* rawSeqStore, ldmParams_t const* params, void const* src, size_t srcSize)
__CPROVER_requires(ldmState != NULL && rawSeqStore != NULL && params != NULL)
__CPROVER_assigns(rawSeqStore->size, __CPROVER_object_whole(rawSeqStore->seq))
__CPROVER_ensures(ZSTD_isError(__CPROVER_return_value) || __CPROVER_return_value <= srcSize)
__CPROVER_ensures(rawSeqStore->size >= __CPROVER_old(rawSeqStore->size) && rawSeqStore->size <= rawSeqStore->capacity)
;
unsigned long long ZSTD_XXH64(const void* p, size_t n, unsigned long long seed) { (void)p; (void)n; (void)seed; return nondet_vu64(); }

void harness(void)
{
    IN(vu32, curr); IN(vsz, n); IN(vu32, hashLog); IN(vu32, bucketLog); IN(vu32, windowLog); IN(vu32, low); IN(vu32, dictLimit); IN(vu32, lde); IN(vsz, cap); IN(vsz, used);
    static ldmState_t st; rawSeqStore_t seqs; ldmParams_t params;
    BYTE* space; size_t r; U32 base_index0;
    ASSUME(hashLog >= ZSTD_LDM_HASHLOG_MIN && hashLog <= ZSTD_LDM_HASHLOG_MAX && bucketLog <= 8 && bucketLog <= hashLog);
    ASSUME(windowLog >= ZSTD_WINDOWLOG_MIN && windowLog <= ZSTD_WINDOWLOG_MAX);
    ASSUME(n >= 1 && n <= ((size_t)1 << 20));
    ASSUME(low >= ZSTD_WINDOW_START_INDEX && low <= dictLimit && dictLimit <= curr);
    ASSUME((U64)curr + n <= 0xFFFFFFFFu);
    space = (BYTE*)malloc((size_t)curr + n); ASSUME(space != NULL);
    st.window.base = space; st.window.dictBase = space; st.window.nextSrc = space + curr + n;
    st.window.lowLimit = low; st.window.dictLimit = dictLimit; st.window.nbOverflowCorrections = 0;
    st.loadedDictEnd = lde;
    st.hashTable = (ldmEntry_t*)malloc(sizeof(ldmEntry_t) << hashLog); ASSUME(st.hashTable != NULL);
    st.bucketOffsets = NULL;
    params.enableLdm = ZSTD_ps_enable; params.hashLog = hashLog; params.bucketSizeLog = bucketLog; params.minMatchLength = 64; params.hashRateLog = 7; params.windowLog = windowLog;
    ASSUME(cap <= 64 && used <= cap);
    seqs.seq = (rawSeq*)malloc(cap * sizeof(rawSeq) + 1); ASSUME(seqs.seq != NULL);
    seqs.pos = 0; seqs.posInSequence = 0; seqs.size = used; seqs.capacity = cap;
    base_index0 = curr;

    r = ZSTD_ldm_generateSequences(&st, &seqs, &params, space + curr, n);
    (void)r;
    REACH("ldm: returned");
    if (st.window.nbOverflowCorrections == 1) {
        U32 const newCurr = (U32)((space + curr) - st.window.base);
        REACH("ldm: window rebased");
        CLAIM(zstd_verif_ghost.cell_old == base_index0 - newCurr, "C15 ldm: the table is reduced by exactly the correction applied to the LDM window");
        CLAIM(st.loadedDictEnd == 0, "C15 ldm: overflow correction invalidates the dictionary");
    }
}
