/*UNIT
{"props": ["C10"], "kind": "K1", "tier": "quick", "timeout": 900,
 "replace": ["ZSTD_decompressContinueStream", "ZSTD_decompress_usingDDict", "ZSTD_DCtx_selectFrameDDict"],
 "split": {"define": "ONLY_WHICH", "values": {"hint_read": 0, "hint_load": 1}},
 "cbmc": ["--unwind", "13", "--unwindset", "ZSTD_decompressStream.2:2,ZSTD_findFrameSizeInfo.0:2"],
 "defines": ["ZSTD_DECODER_INTERNAL_BUFFER=64", "VERIF_MEM_HAVOC_SLICE"],
 "extra_src": ["stubs/xxh_stub.c", "stubs/mem_ranges.c"],
 "functions": ["ZSTD_decompressStream", "ZSTD_nextSrcSizeToDecompress", "ZSTD_nextInputType", "ZSTD_decodingBufferSize_internal", "ZSTD_decompressBegin_usingDDict", "ZSTD_decodeFrameHeader"],
 "floor": 150,
 "assumes": ["entry states of ZSTD_decompressStream in which its stage loop provably ends after one or two rounds (no input bytes offered; proved by the unwinding assertion); the three callees that need input or a multi-DDict set carry the contract requires(false): their unreachability from these entry states is itself a proof obligation: any mid-frame decoder state with nothing to flush, input staged partially (zdss_load) or not at all (zdss_read)",
             "the bound on the hint is the frame grammar: bytes that MUST still follow in the frame given (stage, expected, checksum flag) - independent of the code",
             "no dictionary, no multiple-DDict set, legacy support off"],
 "what": "ZSTD_decompressStream called with no input in a mid-frame state: the returned size hint plus what is already staged never exceeds the bytes the frame grammar says must still follow (never asks beyond the end of the frame; a block header is preloaded only when a further block header must exist) and is at least 1 while the frame is incomplete. (A second pair of proof runs for the buffer-sizing step of the header stage - the static-context room check - ran out of memory in every object representation tried; see DESIGN section 3.)"}
*/
#include "verif.h"
#include "lib/common/zstd_internal.h"
#include "lib/decompress/zstd_decompress_internal.h"
#include "lib/decompress/zstd_decompress_block.h"
#include "lib/common/error_private.c"
#include "lib/common/zstd_common.c"
#undef FSE_isError
#undef HUF_isError
#include "lib/common/entropy_common.c"
#include "lib/common/fse_decompress.c"
#include "lib/decompress/zstd_ddict.c"
#include "lib/decompress/huf_decompress.c"
#define ZSTD_decompressBlock_internal ZSTD_decompressBlock_internal_real
#include "lib/decompress/zstd_decompress_block.c"
#undef ZSTD_decompressBlock_internal
size_t ZSTD_decompressBlock_internal(ZSTD_DCtx* dctx, void* dst, size_t dstCapacity, const void* src, size_t srcSize, const streaming_operation streaming)
{ (void)dctx; (void)dst; (void)dstCapacity; (void)src; (void)srcSize; (void)streaming; __CPROVER_assert(0, "the block decoder is not reachable without input"); return 0; }
/* unreachable from the entry states of this unit: asserted at every call site (requires false), and the path ends there */
static size_t ZSTD_decompressContinueStream(ZSTD_DStream* zds, char** op, char* oend, void const* src, size_t srcSize)
__CPROVER_requires(0) __CPROVER_assigns() __CPROVER_ensures(0);
size_t ZSTD_decompress_usingDDict(ZSTD_DCtx* dctx, void* dst, size_t dstCapacity, const void* src, size_t srcSize, const ZSTD_DDict* ddict)
__CPROVER_requires(0) __CPROVER_assigns() __CPROVER_ensures(0);
static void ZSTD_DCtx_selectFrameDDict(ZSTD_DCtx* dctx)
__CPROVER_requires(0) __CPROVER_assigns() __CPROVER_ensures(0);
#include "lib/decompress/zstd_decompress.c"

void harness(void)
{
    static ZSTD_DCtx dobj;                    /* typed object + concrete stream stage (and staged header length) per proof run: symbolic execution follows one case of the stage switch */
    ZSTD_DCtx* const z = &dobj;
    IN(vsz, isize); IN(vsz, osize); IN(vsz, opos); IN(vint, format);
    ZSTD_inBuffer in; ZSTD_outBuffer out; size_t r;
    ASSUME(isize <= ((size_t)1 << 20) && osize <= ((size_t)1 << 32) && opos <= osize);
    ASSUME(format == ZSTD_f_zstd1 || format == ZSTD_f_zstd1_magicless);
    in.src = malloc(isize); in.size = isize; in.pos = isize;             /* no input offered */
    out.dst = malloc(osize); out.size = osize; out.pos = opos;
    ASSUME(in.src != NULL && out.dst != NULL);
    z->format = (ZSTD_format_e)format; z->outBufferMode = ZSTD_bm_buffered;
    z->refMultipleDDicts = ZSTD_rmd_refSingleDDict; z->ddictSet = NULL; z->dictUses = ZSTD_dont_use; z->ddict = NULL; z->ddictLocal = NULL;
    z->customMem.customAlloc = NULL; z->customMem.customFree = NULL; z->customMem.opaque = NULL;
    z->noForwardProgress = 0; z->isFrameDecompression = 1;

#if ONLY_WHICH <= 1
    {   IN(vint, stage); IN(vsz, expected); IN(vsz, inPos); IN(vint, bType); IN(vu32, checksumFlag); IN(vint, sstage); IN(vsz, inBuffSize); IN(vu32, hostage);
        size_t must;
        ASSUME(stage >= ZSTDds_decodeBlockHeader && stage <= ZSTDds_skipFrame);
        ASSUME(bType >= bt_raw && bType <= bt_compressed && checksumFlag <= 1 && hostage <= 1);
        ASSUME(sstage == (ONLY_WHICH == 0 ? zdss_read : zdss_load));
        /* stage invariants of the buffer-less decoder (postconditions proved by c09_decompress_continue) */
        ASSUME(expected >= 1);
        if (stage == ZSTDds_decodeBlockHeader) ASSUME(expected == ZSTD_blockHeaderSize);
        if (stage == ZSTDds_decompressBlock || stage == ZSTDds_decompressLastBlock) ASSUME(expected <= ZSTD_BLOCKSIZE_MAX && (bType != bt_rle || expected == 1));
        if (stage == ZSTDds_checkChecksum) ASSUME(expected == 4 && checksumFlag == 1);
        if (stage == ZSTDds_decodeSkippableHeader) ASSUME(expected == 3 && format == ZSTD_f_zstd1);
        if (stage == ZSTDds_skipFrame) ASSUME(expected <= 0xFFFFFFFFu);
        /* streaming layer: bytes staged so far are fewer than what the decoder waits for; nothing left to flush */
        ASSUME(sstage == zdss_load ? (inPos < expected && (stage == ZSTDds_skipFrame || expected <= inBuffSize)) : inPos == 0);
        ASSUME(inBuffSize <= ((size_t)1 << 20));
        z->stage = (ZSTD_dStage)stage; z->expected = expected; z->inPos = inPos; z->bType = (blockType_e)bType;
        z->fParams.checksumFlag = checksumFlag; z->streamStage = (ONLY_WHICH == 0 ? zdss_read : zdss_load);
        z->inBuffSize = inBuffSize; z->inBuff = (char*)malloc(inBuffSize); ASSUME(z->inBuff != NULL);
        z->outStart = 0; z->outEnd = 0; z->hostageByte = hostage;

        r = ZSTD_decompressStream(z, &out, &in);
        CLAIM(!ZSTD_isError(r), "C10 stream: a first call without input in a consistent mid-frame state does not fail");
        REACH("hint: returned");
        /* bytes that must still follow in this frame, by the frame grammar */
        must = (stage == ZSTDds_decompressBlock) ? expected + ZSTD_blockHeaderSize                  /* a non-last block is followed by a block header */
             : (stage == ZSTDds_decompressLastBlock) ? expected + (checksumFlag ? 4 : 0)
             : expected;                                                                             /* block header, checksum, skippable header / payload */
        CLAIM(in.pos == isize && out.pos == opos, "C10 stream: without input and with nothing to flush the call consumes and produces nothing");
        CLAIM(r >= 1, "C10 stream: an incomplete frame is never reported complete");
        CLAIM(r + inPos <= must, "C10 stream: the size hint never asks for bytes beyond the end of the current frame");
        CLAIM(r + inPos >= expected, "C10 stream: the size hint covers at least what the decoder is waiting for");
        if (stage == ZSTDds_decompressLastBlock) REACH("hint: inside the last block");
        if (stage == ZSTDds_decompressBlock) REACH("hint: inside a block");
    }
#endif
}
