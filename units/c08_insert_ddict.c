/*UNIT
{"props": ["C08"], "kind": "K2", "tier": "quick", "timeout": 300,
 "replace_calls": {"ZSTD_loadDEntropy": "stub_loadDEntropy", "ZSTD_refDictContent": "stub_refDictContent"},
 "functions": ["ZSTD_decompress_insertDictionary"],
 "floor": 15,
 "assumes": ["ZSTD_loadDEntropy redirected to a stub returning an error or a header size in [20, dictSize] (what unit c08_load_dentropy proves); ZSTD_refDictContent redirected to a stub that records the range it is given (its pointer bookkeeping is the window logic of c02_check_continuity)",
             "the context is a typed static object"],
 "what": "decoder-side dictionary loading on ARBITRARY dictionary bytes of symbolic length: fewer than 8 bytes or a wrong magic number means raw-content mode (the whole buffer is content, no dictionary ID is set); with the dictionary magic the ID is the little-endian word after it, the entropy header is parsed, a corrupted header is refused, and exactly the bytes after the header are referenced as content; entropy tables are marked usable only in that case"}
*/
#include "verif.h"
#include "lib/common/zstd_internal.h"
#include "lib/decompress/zstd_decompress_internal.h"
#include "lib/common/error_private.c"
#include "lib/common/zstd_common.c"
#include "lib/decompress/zstd_ddict.c"
#include "lib/decompress/zstd_decompress.c"

static const void* g_refStart; static size_t g_refSize; static int g_refCalls, g_entCalls; static size_t g_eSize; static int g_entErr;
size_t stub_loadDEntropy(ZSTD_entropyDTables_t* entropy, const void* const dict, size_t const dictSize)
{
    (void)entropy; g_entCalls++;
    __CPROVER_assert(dictSize >= 8 && __CPROVER_r_ok(dict, dictSize), "C08 insert: the entropy parser gets the whole dictionary, at least magic and ID");
    g_entErr = nondet_vint() & 1;
    if (g_entErr) return ERROR(dictionary_corrupted);
    g_eSize = nondet_vsz(); __CPROVER_assume(g_eSize >= 20 && g_eSize <= dictSize);
    return g_eSize;
}
size_t stub_refDictContent(ZSTD_DCtx* dctx, const void* dict, size_t dictSize)
{ (void)dctx; g_refCalls++; g_refStart = dict; g_refSize = dictSize;
  __CPROVER_assert(dictSize == 0 || __CPROVER_r_ok(dict, dictSize), "C08 insert: the referenced content lies inside the dictionary buffer"); return 0; }

void harness(void)
{
    static ZSTD_DCtx dobj;
    IN(vsz, n); IN(vu32, oldID); IN(vu32, litE); IN(vu32, fseE);
    BYTE* dict; size_t r;
    ASSUME(n <= ((size_t)1 << 32));
    dict = (BYTE*)malloc(n); ASSUME(dict != NULL);
    dobj.dictID = oldID; dobj.litEntropy = litE; dobj.fseEntropy = fseE;
    g_refCalls = 0; g_entCalls = 0; g_refStart = NULL; g_refSize = 0; g_eSize = 0; g_entErr = 0;
    r = ZSTD_decompress_insertDictionary(&dobj, dict, n);
    if (n < 8 || MEM_readLE32(dict) != ZSTD_MAGIC_DICTIONARY) {
        REACH("insert: raw content");
        CLAIM(!ZSTD_isError(r) && g_entCalls == 0 && g_refCalls == 1 && g_refStart == (const void*)dict && g_refSize == n, "C08 insert: without the dictionary magic the whole buffer is raw content");
        CLAIM(dobj.dictID == oldID && dobj.litEntropy == litE && dobj.fseEntropy == fseE, "C08 insert: raw content sets no dictionary ID and no entropy tables");
        return;
    }
    CLAIM(g_entCalls == 1, "C08 insert: a structured dictionary has its entropy header parsed once");
    if (ZSTD_isError(r)) { REACH("insert: corrupted dictionary refused"); CLAIM(g_entErr && g_refCalls == 0, "C08 insert: a dictionary is refused only when its header does not parse, and then nothing is referenced"); return; }
    REACH("insert: dictionary loaded");
    CLAIM(dobj.dictID == MEM_readLE32(dict + 4), "C08 insert: the dictionary ID is the little-endian word after the magic");
    CLAIM(g_refCalls == 1 && g_refStart == (const void*)(dict + g_eSize) && g_refSize == n - g_eSize, "C08 insert: exactly the bytes after the entropy header are referenced as content");
    CLAIM(dobj.litEntropy == 1 && dobj.fseEntropy == 1, "C08 insert: the dictionary's entropy tables are marked usable");
}
