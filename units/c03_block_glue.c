/*UNIT
{"props": ["C03","C06"], "kind": "K1", "tier": "quick", "timeout": 600,
 "extra_src": ["stubs/mem_ranges.c"],
 "replace": ["ZSTD_decodeLiteralsBlock", "ZSTD_decodeSeqHeaders", "ZSTD_getOffsetInfo", "ZSTD_decompressSequences", "ZSTD_decompressSequencesLong", "ZSTD_decompressSequencesSplitLitBuffer"],
 "functions": ["ZSTD_decompressBlock_internal", "ZSTD_totalHistorySize", "ZSTD_blockSizeMax"],
 "floor": 40,
 "assumes": ["ZSTD_decodeLiteralsBlock replaced by a contract whose ENSURES (error or section size <= srcSize) is what unit c03_decode_literals proves on the real body; its REQUIRES are asserted here",
             "ZSTD_decodeSeqHeaders replaced by a contract whose ENSURES (error or header size <= srcSize, 0 <= nbSeq) is what unit c03_decode_seq_headers proves on the real body",
             "the three sequence executors and ZSTD_getOffsetInfo replaced by ASSUMED contracts: REQUIRES (asserted) a readable sequence section and a writable output range; ENSURES an error or a size <= maxDstSize",
             "virtualStart inside the output object (no dictionary segment); the context is a typed static object"],
 "what": "compressed-block decoder, glue between the three section decoders, for blocks of symbolic size on arbitrary content: blocks larger than the frame's block size limit are refused, the literals parser gets the whole block, the sequence-header parser gets exactly what follows the literals section, the executor gets exactly what follows the sequence header and the caller's output range; a block with sequences and no output space is refused; the result is an error or a size <= dstCapacity"}
*/
#include "verif.h"
#include "lib/common/zstd_internal.h"
#include "lib/decompress/zstd_decompress_internal.h"
#include "lib/common/error_private.c"
#include "lib/common/zstd_common.c"
#undef FSE_isError
#undef HUF_isError
#include "lib/common/entropy_common.c"
#include "lib/common/fse_decompress.c"
#include "lib/decompress/zstd_decompress_block.c"

/* contracts (attached after the definitions: some parameter types are local to that file) */
static size_t ZSTD_decodeLiteralsBlock(ZSTD_DCtx* dctx, const void* src, size_t srcSize, void* dst, size_t dstCapacity, const streaming_operation streaming)
__CPROVER_requires(dctx != NULL && (srcSize == 0 || __CPROVER_r_ok(src, srcSize)) && (dstCapacity == 0 || __CPROVER_w_ok(dst, dstCapacity)))
__CPROVER_requires(srcSize <= ZSTD_BLOCKSIZE_MAX)
__CPROVER_assigns(dctx->litPtr, dctx->litSize, dctx->litBuffer, dctx->litBufferEnd, dctx->litBufferLocation, dctx->litEntropy, dctx->HUFptr, __CPROVER_object_whole(dst))
__CPROVER_ensures(ZSTD_isError(__CPROVER_return_value) || __CPROVER_return_value <= srcSize)
;
size_t ZSTD_decodeSeqHeaders(ZSTD_DCtx* dctx, int* nbSeqPtr, const void* src, size_t srcSize)
__CPROVER_requires(dctx != NULL && nbSeqPtr != NULL && (srcSize == 0 || __CPROVER_r_ok(src, srcSize)))
__CPROVER_assigns(*nbSeqPtr, dctx->LLTptr, dctx->MLTptr, dctx->OFTptr, dctx->fseEntropy)
__CPROVER_ensures(ZSTD_isError(__CPROVER_return_value) || (__CPROVER_return_value <= srcSize && *nbSeqPtr >= 0))
;
static ZSTD_OffsetInfo ZSTD_getOffsetInfo(const ZSTD_seqSymbol* offTable, int nbSeq)
__CPROVER_requires(nbSeq >= 0)
__CPROVER_assigns()
__CPROVER_ensures(1)
;
#define EXECUTOR_CONTRACT \
__CPROVER_requires(dctx != NULL && nbSeq >= 0 && (seqSize == 0 || __CPROVER_r_ok(seqStart, seqSize)) && (maxDstSize == 0 || __CPROVER_w_ok(dst, maxDstSize))) \
__CPROVER_requires(nbSeq == 0 || (dst != NULL && maxDstSize > 0)) \
__CPROVER_assigns(__CPROVER_object_whole(dst), dctx->entropy.rep, dctx->litPtr, dctx->litSize, dctx->litBufferLocation) \
__CPROVER_ensures(ZSTD_isError(__CPROVER_return_value) || __CPROVER_return_value <= maxDstSize)
static size_t ZSTD_decompressSequences(ZSTD_DCtx* dctx, void* dst, size_t maxDstSize, const void* seqStart, size_t seqSize, int nbSeq, const ZSTD_longOffset_e isLongOffset)
EXECUTOR_CONTRACT ;
static size_t ZSTD_decompressSequencesSplitLitBuffer(ZSTD_DCtx* dctx, void* dst, size_t maxDstSize, const void* seqStart, size_t seqSize, int nbSeq, const ZSTD_longOffset_e isLongOffset)
EXECUTOR_CONTRACT ;
static size_t ZSTD_decompressSequencesLong(ZSTD_DCtx* dctx, void* dst, size_t maxDstSize, const void* seqStart, size_t seqSize, int nbSeq, const ZSTD_longOffset_e isLongOffset)
EXECUTOR_CONTRACT ;

void harness(void)
{
    static ZSTD_DCtx dobj;
    IN(vsz, n); IN(vsz, cap); IN(vsz, bmax); IN(vint, isFrame); IN(vint, streaming); IN(vint, cold); IN(vsz, vs);
    BYTE* src; BYTE* dst; size_t r;
    ASSUME(n <= ((size_t)1 << 20) && cap <= ((size_t)1 << 32));
    ASSUME(isFrame == 0 || isFrame == 1);
    ASSUME(streaming == not_streaming || streaming == is_streaming);
    ASSUME(bmax >= 1 && bmax <= ZSTD_BLOCKSIZE_MAX);
    src = (BYTE*)malloc(n); dst = (BYTE*)malloc(cap); ASSUME(src && dst);
    dobj.isFrameDecompression = isFrame; dobj.fParams.blockSizeMax = (unsigned)bmax; dobj.ddictIsCold = cold;
    ASSUME(vs <= cap); dobj.virtualStart = dst + 0; (void)vs;

    r = ZSTD_decompressBlock_internal(&dobj, dst, cap, src, n, (streaming_operation)streaming);
    if (ZSTD_isError(r)) { REACH("glue: refused"); if (n > (isFrame ? bmax : (size_t)ZSTD_BLOCKSIZE_MAX)) REACH("glue: oversized block refused"); return; }
    REACH("glue: decoded");
    CLAIM(n <= (isFrame ? bmax : (size_t)ZSTD_BLOCKSIZE_MAX), "C03 glue: a block larger than the block size limit is refused");
    CLAIM(r <= cap, "C03/C06 glue: the regenerated size never exceeds the capacity");
    CLAIM(dobj.ddictIsCold == 0, "C03 glue: the cold-dictionary hint is consumed");
}
