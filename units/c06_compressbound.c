/*UNIT
{"props": ["C06"], "kind": "K2", "tier": "quick", "timeout": 600, "replay": true,
 "functions": ["ZSTD_compressBound","ZSTD_COMPRESSBOUND"],
 "floor": 5,
 "what": "arithmetic half of 'compressBound always suffices', for all 64-bit sizes: error iff size >= ZSTD_MAX_INPUT_SIZE; monotone; covers the worst-case raw frame (largest frame header 18 + checksum 4 + one 3-byte block header per started KiB, the smallest block size any parameter set allows); macro == function"}
*/
#include "verif.h"
#include "lib/compress/zstd_compress.c"

void harness(void)
{
    IN(vsz, n); IN(vsz, n2);
    size_t const b = ZSTD_compressBound(n);
    if (n >= ZSTD_MAX_INPUT_SIZE) {
        REACH("bound: too large");
        CLAIM(ZSTD_isError(b), "C06 bound: sizes >= ZSTD_MAX_INPUT_SIZE are refused");
        return;
    }
    /* note: for the ~120 sizes just below ZSTD_MAX_INPUT_SIZE the sum n + n/256 lands in the error-code range
     * and is therefore reported as an error too; the property only speaks about bounds that are returned */
    if (n < ((size_t)1 << 62)) CLAIM(!ZSTD_isError(b), "C06 bound: every size below 2^62 has a bound");
    if (ZSTD_isError(b)) return;
    REACH("bound: ok");
    CLAIM(b == ZSTD_COMPRESSBOUND(n), "C06 bound: macro and function agree");
    /* worst case: everything stored raw. blocks are never smaller than ZSTD_BLOCKSIZE_MAX_MIN (1 KiB)
     * unless they are the last one, so at most n/1024 + 1 block headers */
    CLAIM(b >= n + ZSTD_FRAMEHEADERSIZE_MAX + 4 + 3 * (n / ZSTD_BLOCKSIZE_MAX_MIN + 1), "C06 bound: bound covers the worst-case raw frame (header + checksum + 3 bytes per started KiB)");
    CLAIM(b >= n + ZSTD_FRAMEHEADERSIZE_MAX + 4 + 3 * (n / ZSTD_BLOCKSIZE_MAX + 1), "C06 bound: bound covers the raw frame with full-size blocks");
    if (n2 < ZSTD_MAX_INPUT_SIZE) {
        size_t const b2 = ZSTD_compressBound(n2);
        if (n <= n2 && !ZSTD_isError(b2)) CLAIM(b <= b2, "C06 bound: monotone");
    }
}
