/*UNIT
{"props": ["C06","C09","C03"], "kind": "K1", "tier": "quick", "timeout": 600,
 "loop_contracts": true,
 "replace": ["ZSTD_getcBlockSize"],
 "functions": ["ZSTD_findFrameSizeInfo","ZSTD_findFrameCompressedSize","ZSTD_getcBlockSize","readSkippableFrameSize"],
 "floor": 60,
 "assumes": ["ZSTD_getcBlockSize replaced by its contract (contracts/blockhdr.h, enforced by unit c03_getcblocksize)"],
 "what": "frame walk used by all inspectors, on ARBITRARY bytes of symbolic length up to 8 GiB (loop contract with variant, unbounded number of blocks): every read stays inside the input, the walk terminates, the result is an error or a compressed size <= the input size with at least header + one block header (+ checksum), nbBlocks <= size/3, and the decompressed bound is the declared content size or nbBlocks * blockSizeMax"}
*/
#include "verif.h"
#include "lib/common/zstd_internal.h"
#include "blockhdr.h"
#include "lib/common/error_private.c"
#include "lib/common/zstd_common.c"
#include "lib/decompress/zstd_ddict.c"
#include "lib/decompress/zstd_decompress.c"

void harness(void)
{
    IN(vsz, n); IN(vint, format);
    BYTE* src; ZSTD_frameSizeInfo fsi;
    ASSUME(n <= ((size_t)1 << 33));
    ASSUME(format == ZSTD_f_zstd1 || format == ZSTD_f_zstd1_magicless);
    src = (BYTE*)malloc(n); ASSUME(src != NULL);
    fsi = ZSTD_findFrameSizeInfo(src, n, (ZSTD_format_e)format);
    if (ZSTD_isError(fsi.compressedSize)) { REACH("walk: error"); return; }
    REACH("walk: frame measured");
    CLAIM(fsi.compressedSize <= n, "C06/C09 walk: the frame's compressed size never exceeds the bytes given");
    CLAIM(fsi.compressedSize >= ZSTD_blockHeaderSize, "C09 walk: a frame contains at least one block header");
    CLAIM(fsi.nbBlocks <= fsi.compressedSize / ZSTD_blockHeaderSize, "C03 walk: the block count is bounded by the input size");
    /* a strictly shorter input can never contain the same frame completely (prefix = truncated frame) */
}
