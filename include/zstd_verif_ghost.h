/* zstd_verif_ghost.h — the ghost state object (verification-only). Included by zstd_verif_hooks.h (CBMC build)
 * and by verif.h in the native replay build, where it only makes harness code that mentions the ghost compile
 * (ghost-dependent claims are GCLAIM = not evaluated natively). */
#ifndef ZSTD_VERIF_GHOST_H
#define ZSTD_VERIF_GHOST_H
/* ---- generic ghost state (verification-only): written by hooks and by the stubs in /verif/stubs ----
 * One object, so that any loop contract can name it in its frame (ZSTD_VERIF_GHOST_FRAME). */
#include <stddef.h>
struct zstd_verif_ghost_s {
    unsigned bits_high;          /* highest value DStream.bitsConsumed reached since the harness reset it */
    void*    memmove_last_dst;   /* last memmove seen by stubs/mem_sampled.c */
    size_t   memmove_last_len;
    unsigned memmove_calls;
    unsigned long long xxh_last_digest;   /* value returned by the last XXH64_digest stub call */
    unsigned long long xxh_bytes;         /* bytes fed to XXH64_update since the last XXH64_reset */
    const void* range_start;              /* a range returned by a callee that was replaced by its contract */
    size_t range_size;
    unsigned long long io_pos;            /* ghost file position maintained by the fwrite / fseek stubs */
    size_t   io_k;                        /* ghost byte index into the buffer handed to the sparse writer (chosen by the harness) */
    int      io_covered;                  /* that byte has been passed to fwrite */
    unsigned long long frames_bytes;      /* input bytes consumed by frames the frame decoder accepted (its contract's ghost effect) */
    unsigned long long frames_out;        /* output bytes those frames regenerated */
    unsigned long long skipped_bytes;     /* input bytes skipped as skippable frames by ZSTD_decompressMultiFrame */
    unsigned long long chunk_src_bytes;   /* ZSTD_compress_frameChunk: input bytes put into blocks so far */
    unsigned long long chunk_blocks;      /* blocks emitted: 0, 1, 2 = several (saturating) */
    unsigned chunk_last_seen;             /* a block carrying the last-block flag has been emitted */
    unsigned long long cs_loaded;         /* ZSTD_compressStream_generic: input bytes accepted into the staging buffer so far */
    unsigned long long cs_compressed;     /* bytes handed to the block-level compressor (contract ghost effect) */
    unsigned long long cs_produced;       /* bytes the block-level compressor produced into the staging output buffer or dst */
    size_t   cell_idx;                    /* ghost cell of a table-transforming loop: index chosen by the harness, */
    unsigned cell_old, cell_new;          /* its value before the loop and the value the specification gives it   */
};
extern struct zstd_verif_ghost_s zstd_verif_ghost;
#endif
