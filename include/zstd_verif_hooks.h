/* zstd_verif_hooks.h — included by /repo/lib/common/compiler.h when -DZSTD_VERIF is given.
 * ZSTD_VERIF_LOOP(...)  : CBMC loop contract clauses, placed between a loop header and its body.
 * ZSTD_VERIF_GHOST(...) : ghost statements (updates of verification-only state). */
#ifndef ZSTD_VERIF_HOOKS_H
#define ZSTD_VERIF_HOOKS_H
#define ZSTD_VERIF_LOOP(...)  __VA_ARGS__
#define ZSTD_VERIF_GHOST(...) __VA_ARGS__

#include "zstd_verif_ghost.h"
#define ZSTD_VERIF_GHOST_FRAME __CPROVER_object_whole(&zstd_verif_ghost)
/* A pointer havocked by a loop contract may, for CBMC's symbolic execution, point to ANY address-taken object of the
 * program (the invariant's same_object fact does not narrow its points-to set), so every access through it fans out over
 * all objects. Re-deriving it from its base is the identity when the invariant holds (the subtraction is checked) and
 * narrows the points-to set to the base's object. Expands to nothing in a normal build. */
#define ZSTD_VERIF_REBASE(p, base) (p) = (base) + ((p) - (base))
/* same for void pointers (CONSTQ is `const` or empty) */
#define ZSTD_VERIF_REBASE_BYTES(CONSTQ, p, base) (p) = (CONSTQ char*)(base) + ((CONSTQ char*)(p) - (CONSTQ char*)(base))
/* "the ghost cell already has its new value iff the loop has passed it" — lets a loop contract carry a
 * per-element postcondition without quantifiers (the harness quantifies by choosing cell_idx freely) */
#define ZSTD_VERIF_GHOST_CELL_INV(table, size, done) \
    (zstd_verif_ghost.cell_idx >= (size_t)(size) \
     || (table)[zstd_verif_ghost.cell_idx] == (zstd_verif_ghost.cell_idx < (size_t)(done) ? zstd_verif_ghost.cell_new : zstd_verif_ghost.cell_old))
/* the two compressed-block states of a context are swapped, never replaced: the pair of pointers is the pair (p, n) in some order */
#define ZSTD_VERIF_BLOCKSTATE_SWAPPED(zc, p, n) \
    (((zc)->blockState.prevCBlock == (p) && (zc)->blockState.nextCBlock == (n)) || ((zc)->blockState.prevCBlock == (n) && (zc)->blockState.nextCBlock == (p)))
/* ---- sparse file writer (programs/fileio_asyncio.c, AIO_fwriteSparse) ----
 * accounting: file position + pending skip == their values at loop entry + bytes of the buffer processed so far;
 * ghost byte io_k: once processed it was either written or it is zero (only zero bytes are ever skipped). */
#define ZSTD_VERIF_SPARSE_DONE(bufferT, ptrT) ((size_t)((const char*)(ptrT) - (const char*)(bufferT)))
#define ZSTD_VERIF_SPARSE_SEGMENTS(buffer, bufferT, bufferTEnd, ptrT, bufferSizeT, storedSkips) \
    __CPROVER_assigns(ptrT, bufferSizeT, storedSkips, ZSTD_VERIF_GHOST_FRAME) \
    __CPROVER_loop_invariant(__CPROVER_same_object(ptrT, bufferT) \
        && __CPROVER_POINTER_OFFSET(bufferT) <= __CPROVER_POINTER_OFFSET(ptrT) && __CPROVER_POINTER_OFFSET(ptrT) <= __CPROVER_POINTER_OFFSET(bufferTEnd) \
        && (bufferSizeT) <= ((size_t)1 << 40) \
        && (size_t)(__CPROVER_POINTER_OFFSET(bufferTEnd) - __CPROVER_POINTER_OFFSET(ptrT)) == (bufferSizeT) * sizeof(size_t) \
        && zstd_verif_ghost.io_pos + (storedSkips) == __CPROVER_loop_entry(zstd_verif_ghost.io_pos) + __CPROVER_loop_entry(storedSkips) + ZSTD_VERIF_SPARSE_DONE(bufferT, ptrT) \
        && (storedSkips) <= __CPROVER_loop_entry(storedSkips) + ZSTD_VERIF_SPARSE_DONE(bufferT, ptrT) \
        && zstd_verif_ghost.io_k == __CPROVER_loop_entry(zstd_verif_ghost.io_k) \
        && zstd_verif_ghost.range_start == __CPROVER_loop_entry(zstd_verif_ghost.range_start) \
        && (__CPROVER_loop_entry(zstd_verif_ghost.io_covered) == 0 || zstd_verif_ghost.io_covered != 0) \
        && (zstd_verif_ghost.io_k >= ZSTD_VERIF_SPARSE_DONE(bufferT, ptrT) || zstd_verif_ghost.io_covered != 0 || ((const unsigned char*)(buffer))[zstd_verif_ghost.io_k] == 0)) \
    __CPROVER_decreases(bufferSizeT)
#define ZSTD_VERIF_SPARSE_ZEROWORDS(buffer, bufferT, ptrT, nb0T, seg0SizeT) \
    __CPROVER_assigns(nb0T) \
    __CPROVER_loop_invariant((nb0T) <= (seg0SizeT) \
        && (zstd_verif_ghost.io_k < ZSTD_VERIF_SPARSE_DONE(bufferT, ptrT) || zstd_verif_ghost.io_k >= ZSTD_VERIF_SPARSE_DONE(bufferT, ptrT) + (nb0T) * sizeof(size_t) \
            || ((const unsigned char*)(buffer))[zstd_verif_ghost.io_k] == 0)) \
    __CPROVER_decreases((seg0SizeT) - (nb0T))
#define ZSTD_VERIF_SPARSE_ZEROBYTES(buffer, restStart, restEnd, restPtr) \
    __CPROVER_assigns(restPtr) \
    __CPROVER_loop_invariant(__CPROVER_same_object(restPtr, restStart) \
        && __CPROVER_POINTER_OFFSET(restStart) <= __CPROVER_POINTER_OFFSET(restPtr) && __CPROVER_POINTER_OFFSET(restPtr) <= __CPROVER_POINTER_OFFSET(restEnd) \
        && (zstd_verif_ghost.io_k < (size_t)((restStart) - (const char*)(buffer)) || zstd_verif_ghost.io_k >= (size_t)((restPtr) - (const char*)(buffer)) \
            || ((const unsigned char*)(buffer))[zstd_verif_ghost.io_k] == 0)) \
    __CPROVER_decreases(__CPROVER_POINTER_OFFSET(restEnd) - __CPROVER_POINTER_OFFSET(restPtr))
#define ZSTD_VERIF_BITS_CONSUMED(n) \
    do { if ((n) > zstd_verif_ghost.bits_high) zstd_verif_ghost.bits_high = (n); } while (0)

/* ---- thread pool (lib/common/pool.c): monitor-invariant proof, see units/c12_pool_monitor.c ----
 * The contract text lives here; pool.c only names it at the loop it belongs to. */
struct zstd_verif_monitor_s {
    int held;                       /* the queue mutex is held by the thread under proof */
    unsigned long accepted;         /* ghost: jobs ever accepted into the queue */
    unsigned long dequeued;         /* ghost: jobs ever taken out of the queue */
    unsigned long snap_accepted;    /* value of `accepted` when the lock was last acquired */
    int pending_call;               /* thread-local ghost: a dequeued job not yet executed */
    void* popped_opaque;            /* thread-local ghost: argument of that job */
    unsigned long executed;         /* thread-local ghost: jobs this thread has run */
};
extern struct zstd_verif_monitor_s zstd_verif_monitor;
void zstd_verif_pool_accepted(void* ctx);
void zstd_verif_pool_dequeued(void* ctx, void* opaque);

#define ZSTD_VERIF_POOL_COUNT(c) \
    ((c)->queueEmpty ? 0ul : ((c)->queueSize == 1 ? 1ul : \
      (unsigned long)((c)->queueTail > (c)->queueHead ? (c)->queueTail - (c)->queueHead : (c)->queueTail + (c)->queueSize - (c)->queueHead)))
/* I_pool: what every critical section may assume on entry and must re-establish before releasing the mutex */
#define ZSTD_VERIF_POOL_INV(c) \
    ( (c)->queueSize >= 1 && (c)->queueSize <= ZSTD_VERIF_POOL_MAXQ \
   && (c)->queueHead < (c)->queueSize && (c)->queueTail < (c)->queueSize \
   && ((c)->queueSize == 1 || ((c)->queueEmpty != 0) == ((c)->queueHead == (c)->queueTail)) \
   && ((c)->queueEmpty == 0 || (c)->queueEmpty == 1) \
   && (c)->threadLimit >= 1 && (c)->threadLimit <= (c)->threadCapacity \
   && zstd_verif_monitor.accepted - zstd_verif_monitor.dequeued == ZSTD_VERIF_POOL_COUNT(c) )
#ifndef ZSTD_VERIF_POOL_MAXQ
#  define ZSTD_VERIF_POOL_MAXQ 4096
#endif
/* the state the queue mutex protects (what another thread may change while we do not hold it) + the ghosts */
#define ZSTD_VERIF_POOL_FRAME(c) \
    (c)->queueHead, (c)->queueTail, (c)->queueEmpty, (c)->numThreadsBusy, (c)->threadLimit, (c)->shutdown, \
    __CPROVER_object_whole((c)->queue), __CPROVER_object_whole(&zstd_verif_monitor)
/* a loop that waits on a condition variable: lock held, invariant holds whenever the condition is re-tested */
#define ZSTD_VERIF_POOL_WAITLOOP(c) \
    __CPROVER_assigns(ZSTD_VERIF_POOL_FRAME(c)) \
    __CPROVER_loop_invariant(zstd_verif_monitor.held == 1 && zstd_verif_monitor.pending_call == 0 && ZSTD_VERIF_POOL_INV(c) \
                             && zstd_verif_monitor.snap_accepted == zstd_verif_monitor.accepted)
/* the worker's outer loop: between two jobs the lock is not held and no dequeued job is left unexecuted */
#define ZSTD_VERIF_POOL_WORKERLOOP(c) \
    __CPROVER_assigns(ZSTD_VERIF_POOL_FRAME(c)) \
    __CPROVER_loop_invariant(zstd_verif_monitor.held == 0 && zstd_verif_monitor.pending_call == 0)
/* ---- one-shot frame decoder (lib/decompress/zstd_decompress.c, ZSTD_decompressFrame) ----
 * block loop: the input cursor and the remaining size account for exactly the bytes parsed so far, the output
 * cursor stays inside dst, and (when the checksum is validated) every regenerated byte has been hashed.
 * Frame: nothing of the context changes in this loop (the hash state lives in the ghost; the block-level fields
 * written by the block decoder are abstracted away by its contract, see units/c09_decompress_frame.c). */
#define ZSTD_VERIF_DFRAME_LOOP(d, ip, istart, op, ostart, remaining, total, cap) \
    __CPROVER_assigns(ip, remaining, op, ZSTD_VERIF_GHOST_FRAME, __CPROVER_object_whole(ostart)) \
    __CPROVER_loop_invariant((remaining) <= (total) && (total) - (remaining) >= (d)->fParams.headerSize && __CPROVER_same_object(ip, istart) \
        && (size_t)(__CPROVER_POINTER_OFFSET(ip) - __CPROVER_POINTER_OFFSET(istart)) == (total) - (remaining) \
        && __CPROVER_same_object(op, ostart) && __CPROVER_POINTER_OFFSET(op) >= __CPROVER_POINTER_OFFSET(ostart) \
        && (size_t)(__CPROVER_POINTER_OFFSET(op) - __CPROVER_POINTER_OFFSET(ostart)) <= (cap) \
        && (!(d)->validateChecksum || zstd_verif_ghost.xxh_bytes == (size_t)(__CPROVER_POINTER_OFFSET(op) - __CPROVER_POINTER_OFFSET(ostart)))) \
    __CPROVER_decreases(remaining)

/* ---- one-shot multi-frame decoder (ZSTD_decompressMultiFrame): the cursors account for every byte walked so far,
 * and every walked byte belongs to an accepted frame or to a skippable frame (ghost totals). */
#define ZSTD_VERIF_MULTIFRAME_LOOP(src, src0, srcSize, srcSize0, dst, dst0, cap, cap0, more) \
    __CPROVER_assigns(src, srcSize, dst, cap, more, ZSTD_VERIF_GHOST_FRAME, __CPROVER_object_whole(dst0)) \
    __CPROVER_loop_invariant((srcSize) <= (srcSize0) && __CPROVER_same_object(src, src0) \
        && (size_t)(__CPROVER_POINTER_OFFSET(src) - __CPROVER_POINTER_OFFSET(src0)) == (srcSize0) - (srcSize) \
        && (cap) <= (cap0) && __CPROVER_same_object(dst, dst0) \
        && (size_t)(__CPROVER_POINTER_OFFSET(dst) - __CPROVER_POINTER_OFFSET(dst0)) == (cap0) - (cap) \
        && zstd_verif_ghost.frames_bytes + zstd_verif_ghost.skipped_bytes == (srcSize0) - (srcSize) \
        && zstd_verif_ghost.frames_out == (cap0) - (cap) \
        && ((more) == 0 || (more) == 1)) \
    __CPROVER_decreases(srcSize)

/* ---- frame chunk compressor (lib/compress/zstd_compress.c, ZSTD_compress_frameChunk) ----
 * context fields the block loop (or the window maintenance it calls) may change */
#define ZSTD_VERIF_CCTX_CHUNK_FRAME(c) \
    (c)->isFirstBlock, (c)->blockState.matchState.nextToUpdate, (c)->blockState.matchState.window, \
    (c)->blockState.matchState.loadedDictEnd, (c)->blockState.matchState.dictMatchState
/* block loop: every input byte consumed so far went into exactly one block, the output cursor and the remaining
 * capacity account for exactly the bytes produced, and no block has carried the last-block flag yet */
#define ZSTD_VERIF_CHUNK_LOOP(c, ip, src, remaining, srcSize, op, ostart, cap, cap0, savings, lastChunk) \
    __CPROVER_assigns(ip, remaining, op, cap, savings, ZSTD_VERIF_CCTX_CHUNK_FRAME(c), ZSTD_VERIF_GHOST_FRAME, __CPROVER_object_whole(ostart)) \
    __CPROVER_loop_invariant((remaining) <= (srcSize) && __CPROVER_same_object(ip, src) \
        && (size_t)(__CPROVER_POINTER_OFFSET(ip) - __CPROVER_POINTER_OFFSET(src)) == (srcSize) - (remaining) \
        && (cap) <= (cap0) && __CPROVER_same_object(op, ostart) \
        && (size_t)(__CPROVER_POINTER_OFFSET(op) - __CPROVER_POINTER_OFFSET(ostart)) == (cap0) - (cap) \
        && zstd_verif_ghost.chunk_src_bytes == (srcSize) - (remaining) \
        && ((remaining) == 0 || zstd_verif_ghost.chunk_last_seen == 0) \
        && ((remaining) != 0 || (srcSize) == 0 || zstd_verif_ghost.chunk_last_seen == ((lastChunk) & 1u)) \
        && (zstd_verif_ghost.chunk_src_bytes == 0 ? zstd_verif_ghost.chunk_blocks == 0 : (zstd_verif_ghost.chunk_blocks >= 1 && zstd_verif_ghost.chunk_blocks <= 2)) \
        && zstd_verif_ghost.xxh_bytes == __CPROVER_loop_entry(zstd_verif_ghost.xxh_bytes) \
        && (savings) >= __CPROVER_loop_entry(savings) - (long long)((cap0) - (cap)) \
        && (savings) <= __CPROVER_loop_entry(savings) + (long long)((srcSize) - (remaining))) \
    __CPROVER_decreases(remaining)
/* the 3-byte header just written at op describes the block that follows it */
#define ZSTD_VERIF_CHUNK_HEADER(op, cSizeWithHeader, blockSize, lastBlock) \
    __CPROVER_assert(((op)[0] & 1u) == (lastBlock) \
        && ((((op)[0] >> 1) & 3u) == 1u /* bt_rle */ \
            ? ((cSizeWithHeader) == 4 && ((((unsigned)(op)[0]) | ((unsigned)(op)[1] << 8) | ((unsigned)(op)[2] << 16)) >> 3) == (blockSize)) \
            : ((((op)[0] >> 1) & 3u) == 2u /* bt_compressed */ \
               && ((((unsigned)(op)[0]) | ((unsigned)(op)[1] << 8) | ((unsigned)(op)[2] << 16)) >> 3) + 3 == (cSizeWithHeader))), \
        "C06 chunk: the block header written by the chunk compressor states the last-block flag, the block type and the size of the block that follows")
#define ZSTD_VERIF_CHUNK_RAWHEADER(op, cSizeWithHeader, blockSize, lastBlock) \
    __CPROVER_assert(((op)[0] & 1u) == (lastBlock) && (((op)[0] >> 1) & 3u) == 0u /* bt_raw */ \
        && ((((unsigned)(op)[0]) | ((unsigned)(op)[1] << 8) | ((unsigned)(op)[2] << 16)) >> 3) == (blockSize) && (cSizeWithHeader) == (blockSize) + 3, \
        "C06 chunk: the header of a stored (raw) block states the last-block flag and the exact size of the block")
/* per-block accounting */
#define ZSTD_VERIF_CHUNK_BLOCK_DONE(blockSize, lastBlock) \
    __CPROVER_assert(zstd_verif_ghost.chunk_last_seen == 0, "C06 chunk: no block follows a block flagged last"); \
    __CPROVER_assert((blockSize) >= 1 && (blockSize) <= (128u << 10), "C06 chunk: every block holds between 1 and 128 KB of input"); \
    zstd_verif_ghost.chunk_src_bytes += (blockSize); if (zstd_verif_ghost.chunk_blocks < 2) zstd_verif_ghost.chunk_blocks++; zstd_verif_ghost.chunk_last_seen |= (lastBlock)

/* ---- block splitter (ZSTD_compressBlock_splitBlock_internal): partition loop ----
 * the remaining capacity shrinks by exactly what was written and the output cursor stays at dst + written.
 * (The swap of the two compressed-block states done by the partition writer is abstracted away by its contract.) */
#define ZSTD_VERIF_SPLIT_LOOP(zc, i, numSplits, ip, op, dst, cap, cSize, srcBytesTotal, dRep, cRep) \
    __CPROVER_assigns(i, ip, op, cap, cSize, srcBytesTotal, dRep, cRep, \
                      (zc)->blockSplitCtx.currSeqStore, (zc)->blockSplitCtx.nextSeqStore, __CPROVER_object_whole(dst)) \
    __CPROVER_loop_invariant((i) <= (numSplits) + 1 \
        && (cSize) + (cap) == __CPROVER_loop_entry(cap) && (cSize) <= __CPROVER_loop_entry(cap) \
        && __CPROVER_same_object(op, dst) \
        && (size_t)(__CPROVER_POINTER_OFFSET(op) - __CPROVER_POINTER_OFFSET(dst)) == (cSize)) \
    __CPROVER_decreases((numSplits) + 1 - (i))

/* ---- streaming compressor, buffered mode (lib/compress/zstd_compress.c, ZSTD_compressStream_generic): stage loop ----
 * cursors inside the user's buffers; staging indices ordered; in the load stage nothing is waiting to be flushed;
 * every byte accepted from the user is either still pending in the staging buffer or has been handed to the
 * block-level compressor (ghost totals). */
#define ZSTD_VERIF_CSTREAM_FRAME(z) \
    (z)->streamStage, (z)->inBuffPos, (z)->inBuffTarget, (z)->inToCompress, (z)->outBuffContentSize, (z)->outBuffFlushedSize, \
    (z)->frameEnded, (z)->stableIn_notConsumed, (z)->pledgedSrcSizePlusOne
#define ZSTD_VERIF_CSTREAM_LOOP(z, ip, istart, iend, op, ostart, oend, more, mode) \
    __CPROVER_assigns(ip, op, more, ZSTD_VERIF_CSTREAM_FRAME(z), ZSTD_VERIF_GHOST_FRAME, \
                      __CPROVER_object_whole((z)->inBuff), __CPROVER_object_whole((z)->outBuff), __CPROVER_object_whole(ostart)) \
    __CPROVER_loop_invariant(((more) == 0 || (more) == 1) \
        && __CPROVER_same_object(ip, istart) && __CPROVER_POINTER_OFFSET(ip) >= __CPROVER_POINTER_OFFSET(__CPROVER_loop_entry(ip)) && __CPROVER_POINTER_OFFSET(ip) <= __CPROVER_POINTER_OFFSET(iend) \
        && __CPROVER_same_object(op, ostart) && __CPROVER_POINTER_OFFSET(op) >= __CPROVER_POINTER_OFFSET(__CPROVER_loop_entry(op)) && __CPROVER_POINTER_OFFSET(op) <= __CPROVER_POINTER_OFFSET(oend) \
        && (z)->inToCompress <= (z)->inBuffPos && ((z)->inBuffPos < (z)->inBuffTarget || (z)->frameEnded) && (z)->inBuffPos <= (z)->inBuffTarget && (z)->inBuffTarget <= (z)->inBuffSize \
        && (z)->inBuffTarget - (z)->inToCompress <= (z)->blockSize + 1 \
        && (z)->outBuffFlushedSize <= (z)->outBuffContentSize && (z)->outBuffContentSize <= (z)->outBuffSize \
        && ((z)->streamStage == zcss_load || (z)->streamStage == zcss_flush || ((z)->streamStage == zcss_init && (more) == 0 && (z)->frameEnded)) \
        && ((z)->streamStage != zcss_load || ((z)->outBuffContentSize == 0 && (z)->outBuffFlushedSize == 0)) \
        && ((z)->frameEnded == 0 || (z)->frameEnded == 1) \
        && ((z)->frameEnded == 0 || (z)->streamStage != zcss_load) \
        && zstd_verif_ghost.cs_loaded == __CPROVER_loop_entry(zstd_verif_ghost.cs_loaded) + (size_t)(__CPROVER_POINTER_OFFSET(ip) - __CPROVER_POINTER_OFFSET(__CPROVER_loop_entry(ip))) \
        && zstd_verif_ghost.cs_loaded - zstd_verif_ghost.cs_compressed == (z)->inBuffPos - (z)->inToCompress \
        && zstd_verif_ghost.cs_compressed <= zstd_verif_ghost.cs_loaded \
        && ((z)->frameEnded == 0 || (__CPROVER_POINTER_OFFSET(ip) == __CPROVER_POINTER_OFFSET(iend) && (z)->inBuffPos == (z)->inToCompress)) \
        /* why the loop may stop */ \
        && ((more) == 1 || (z)->frameEnded || (mode) == ZSTD_e_continue || (z)->outBuffContentSize > (z)->outBuffFlushedSize \
            || ((mode) == ZSTD_e_flush && __CPROVER_POINTER_OFFSET(ip) == __CPROVER_POINTER_OFFSET(iend) && (z)->inBuffPos == (z)->inToCompress)) \
        /* progress */ \
        && ((more) == 1 || __CPROVER_POINTER_OFFSET(ip) > __CPROVER_POINTER_OFFSET(__CPROVER_loop_entry(ip)) || __CPROVER_POINTER_OFFSET(op) > __CPROVER_POINTER_OFFSET(__CPROVER_loop_entry(op)) \
            || __CPROVER_POINTER_OFFSET(__CPROVER_loop_entry(ip)) == __CPROVER_POINTER_OFFSET(iend) || __CPROVER_POINTER_OFFSET(__CPROVER_loop_entry(op)) == __CPROVER_POINTER_OFFSET(oend)))

/* ---- sequence loop of the block decoder (ZSTD_decompressSequences_body): the output cursor stays between the
 * start of the block's output and oend, the literal cursor between its start value and the end of the literals */
#define ZSTD_VERIF_SEQLOOP(nbSeq, op, ostart, oend, litPtr, litEnd, seqState) \
    __CPROVER_assigns(nbSeq, op, litPtr, seqState, __CPROVER_object_whole(ostart)) \
    __CPROVER_loop_invariant((nbSeq) >= 0 \
        && __CPROVER_same_object(op, ostart) && __CPROVER_POINTER_OFFSET(op) >= __CPROVER_POINTER_OFFSET(__CPROVER_loop_entry(op)) && __CPROVER_POINTER_OFFSET(op) <= __CPROVER_POINTER_OFFSET(oend) \
        && __CPROVER_same_object(litPtr, litEnd) && __CPROVER_POINTER_OFFSET(litPtr) >= __CPROVER_POINTER_OFFSET(__CPROVER_loop_entry(litPtr)) && __CPROVER_POINTER_OFFSET(litPtr) <= __CPROVER_POINTER_OFFSET(litEnd)) \
    __CPROVER_decreases(nbSeq)

#endif
