/* zstd_verif_hooks.h — included by /repo/lib/common/compiler.h when -DZSTD_VERIF is given.
 * ZSTD_VERIF_LOOP(...)  : CBMC loop contract clauses, placed between a loop header and its body.
 * ZSTD_VERIF_GHOST(...) : ghost statements (updates of verification-only state). */
#ifndef ZSTD_VERIF_HOOKS_H
#define ZSTD_VERIF_HOOKS_H
#define ZSTD_VERIF_LOOP(...)  __VA_ARGS__
#define ZSTD_VERIF_GHOST(...) __VA_ARGS__
#endif
