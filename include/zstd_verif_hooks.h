/* zstd_verif_hooks.h — included by /repo/lib/common/compiler.h when -DZSTD_VERIF is given.
 * ZSTD_VERIF_LOOP(...)  : CBMC loop contract clauses, placed between a loop header and its body.
 * ZSTD_VERIF_GHOST(...) : ghost statements (updates of verification-only state). */
#ifndef ZSTD_VERIF_HOOKS_H
#define ZSTD_VERIF_HOOKS_H
#define ZSTD_VERIF_LOOP(...)  __VA_ARGS__
#define ZSTD_VERIF_GHOST(...) __VA_ARGS__

/* ---- generic ghost state (verification-only): written by hooks and by the stubs in /verif/stubs ----
 * One object, so that any loop contract can name it in its frame (ZSTD_VERIF_GHOST_FRAME). */
#include <stddef.h>
struct zstd_verif_ghost_s {
    unsigned bits_high;          /* highest value DStream.bitsConsumed reached since the harness reset it */
    void*    memmove_last_dst;   /* last memmove seen by stubs/mem_sampled.c */
    size_t   memmove_last_len;
    unsigned memmove_calls;
    unsigned long long xxh_last_digest;   /* value returned by the last XXH64_digest stub call */
    unsigned long long xxh_bytes;         /* bytes fed to XXH64_update since the last XXH64_reset */
    const void* range_start;              /* a range returned by a callee that was replaced by its contract */
    size_t range_size;
    unsigned long long io_pos;            /* ghost file position maintained by the fwrite / fseek stubs */
    size_t   io_k;                        /* ghost byte index into the buffer handed to the sparse writer (chosen by the harness) */
    int      io_covered;                  /* that byte has been passed to fwrite */
    size_t   cell_idx;                    /* ghost cell of a table-transforming loop: index chosen by the harness, */
    unsigned cell_old, cell_new;          /* its value before the loop and the value the specification gives it   */
};
extern struct zstd_verif_ghost_s zstd_verif_ghost;
#define ZSTD_VERIF_GHOST_FRAME __CPROVER_object_whole(&zstd_verif_ghost)
/* "the ghost cell already has its new value iff the loop has passed it" — lets a loop contract carry a
 * per-element postcondition without quantifiers (the harness quantifies by choosing cell_idx freely) */
#define ZSTD_VERIF_GHOST_CELL_INV(table, size, done) \
    (zstd_verif_ghost.cell_idx >= (size_t)(size) \
     || (table)[zstd_verif_ghost.cell_idx] == (zstd_verif_ghost.cell_idx < (size_t)(done) ? zstd_verif_ghost.cell_new : zstd_verif_ghost.cell_old))
/* the two compressed-block states of a context are swapped, never replaced: the pair of pointers is the pair (p, n) in some order */
#define ZSTD_VERIF_BLOCKSTATE_SWAPPED(zc, p, n) \
    (((zc)->blockState.prevCBlock == (p) && (zc)->blockState.nextCBlock == (n)) || ((zc)->blockState.prevCBlock == (n) && (zc)->blockState.nextCBlock == (p)))
/* ---- sparse file writer (programs/fileio_asyncio.c, AIO_fwriteSparse) ----
 * accounting: file position + pending skip == their values at loop entry + bytes of the buffer processed so far;
 * ghost byte io_k: once processed it was either written or it is zero (only zero bytes are ever skipped). */
#define ZSTD_VERIF_SPARSE_DONE(bufferT, ptrT) ((size_t)((const char*)(ptrT) - (const char*)(bufferT)))
#define ZSTD_VERIF_SPARSE_SEGMENTS(buffer, bufferT, bufferTEnd, ptrT, bufferSizeT, storedSkips) \
    __CPROVER_assigns(ptrT, bufferSizeT, storedSkips, ZSTD_VERIF_GHOST_FRAME) \
    __CPROVER_loop_invariant(__CPROVER_same_object(ptrT, bufferT) \
        && __CPROVER_POINTER_OFFSET(bufferT) <= __CPROVER_POINTER_OFFSET(ptrT) && __CPROVER_POINTER_OFFSET(ptrT) <= __CPROVER_POINTER_OFFSET(bufferTEnd) \
        && (bufferSizeT) <= ((size_t)1 << 40) \
        && (size_t)(__CPROVER_POINTER_OFFSET(bufferTEnd) - __CPROVER_POINTER_OFFSET(ptrT)) == (bufferSizeT) * sizeof(size_t) \
        && zstd_verif_ghost.io_pos + (storedSkips) == __CPROVER_loop_entry(zstd_verif_ghost.io_pos) + __CPROVER_loop_entry(storedSkips) + ZSTD_VERIF_SPARSE_DONE(bufferT, ptrT) \
        && (storedSkips) <= __CPROVER_loop_entry(storedSkips) + ZSTD_VERIF_SPARSE_DONE(bufferT, ptrT) \
        && zstd_verif_ghost.io_k == __CPROVER_loop_entry(zstd_verif_ghost.io_k) \
        && zstd_verif_ghost.range_start == __CPROVER_loop_entry(zstd_verif_ghost.range_start) \
        && (__CPROVER_loop_entry(zstd_verif_ghost.io_covered) == 0 || zstd_verif_ghost.io_covered != 0) \
        && (zstd_verif_ghost.io_k >= ZSTD_VERIF_SPARSE_DONE(bufferT, ptrT) || zstd_verif_ghost.io_covered != 0 || ((const unsigned char*)(buffer))[zstd_verif_ghost.io_k] == 0)) \
    __CPROVER_decreases(bufferSizeT)
#define ZSTD_VERIF_SPARSE_ZEROWORDS(buffer, bufferT, ptrT, nb0T, seg0SizeT) \
    __CPROVER_assigns(nb0T) \
    __CPROVER_loop_invariant((nb0T) <= (seg0SizeT) \
        && (zstd_verif_ghost.io_k < ZSTD_VERIF_SPARSE_DONE(bufferT, ptrT) || zstd_verif_ghost.io_k >= ZSTD_VERIF_SPARSE_DONE(bufferT, ptrT) + (nb0T) * sizeof(size_t) \
            || ((const unsigned char*)(buffer))[zstd_verif_ghost.io_k] == 0)) \
    __CPROVER_decreases((seg0SizeT) - (nb0T))
#define ZSTD_VERIF_SPARSE_ZEROBYTES(buffer, restStart, restEnd, restPtr) \
    __CPROVER_assigns(restPtr) \
    __CPROVER_loop_invariant(__CPROVER_same_object(restPtr, restStart) \
        && __CPROVER_POINTER_OFFSET(restStart) <= __CPROVER_POINTER_OFFSET(restPtr) && __CPROVER_POINTER_OFFSET(restPtr) <= __CPROVER_POINTER_OFFSET(restEnd) \
        && (zstd_verif_ghost.io_k < (size_t)((restStart) - (const char*)(buffer)) || zstd_verif_ghost.io_k >= (size_t)((restPtr) - (const char*)(buffer)) \
            || ((const unsigned char*)(buffer))[zstd_verif_ghost.io_k] == 0)) \
    __CPROVER_decreases(__CPROVER_POINTER_OFFSET(restEnd) - __CPROVER_POINTER_OFFSET(restPtr))
#define ZSTD_VERIF_BITS_CONSUMED(n) \
    do { if ((n) > zstd_verif_ghost.bits_high) zstd_verif_ghost.bits_high = (n); } while (0)

/* ---- thread pool (lib/common/pool.c): monitor-invariant proof, see units/c12_pool_monitor.c ----
 * The contract text lives here; pool.c only names it at the loop it belongs to. */
struct zstd_verif_monitor_s {
    int held;                       /* the queue mutex is held by the thread under proof */
    unsigned long accepted;         /* ghost: jobs ever accepted into the queue */
    unsigned long dequeued;         /* ghost: jobs ever taken out of the queue */
    unsigned long snap_accepted;    /* value of `accepted` when the lock was last acquired */
    int pending_call;               /* thread-local ghost: a dequeued job not yet executed */
    void* popped_opaque;            /* thread-local ghost: argument of that job */
    unsigned long executed;         /* thread-local ghost: jobs this thread has run */
};
extern struct zstd_verif_monitor_s zstd_verif_monitor;
void zstd_verif_pool_accepted(void* ctx);
void zstd_verif_pool_dequeued(void* ctx, void* opaque);

#define ZSTD_VERIF_POOL_COUNT(c) \
    ((c)->queueEmpty ? 0ul : ((c)->queueSize == 1 ? 1ul : \
      (unsigned long)((c)->queueTail > (c)->queueHead ? (c)->queueTail - (c)->queueHead : (c)->queueTail + (c)->queueSize - (c)->queueHead)))
/* I_pool: what every critical section may assume on entry and must re-establish before releasing the mutex */
#define ZSTD_VERIF_POOL_INV(c) \
    ( (c)->queueSize >= 1 && (c)->queueSize <= ZSTD_VERIF_POOL_MAXQ \
   && (c)->queueHead < (c)->queueSize && (c)->queueTail < (c)->queueSize \
   && ((c)->queueSize == 1 || ((c)->queueEmpty != 0) == ((c)->queueHead == (c)->queueTail)) \
   && ((c)->queueEmpty == 0 || (c)->queueEmpty == 1) \
   && (c)->threadLimit >= 1 && (c)->threadLimit <= (c)->threadCapacity \
   && zstd_verif_monitor.accepted - zstd_verif_monitor.dequeued == ZSTD_VERIF_POOL_COUNT(c) )
#ifndef ZSTD_VERIF_POOL_MAXQ
#  define ZSTD_VERIF_POOL_MAXQ 4096
#endif
/* the state the queue mutex protects (what another thread may change while we do not hold it) + the ghosts */
#define ZSTD_VERIF_POOL_FRAME(c) \
    (c)->queueHead, (c)->queueTail, (c)->queueEmpty, (c)->numThreadsBusy, (c)->threadLimit, (c)->shutdown, \
    __CPROVER_object_whole((c)->queue), __CPROVER_object_whole(&zstd_verif_monitor)
/* a loop that waits on a condition variable: lock held, invariant holds whenever the condition is re-tested */
#define ZSTD_VERIF_POOL_WAITLOOP(c) \
    __CPROVER_assigns(ZSTD_VERIF_POOL_FRAME(c)) \
    __CPROVER_loop_invariant(zstd_verif_monitor.held == 1 && zstd_verif_monitor.pending_call == 0 && ZSTD_VERIF_POOL_INV(c) \
                             && zstd_verif_monitor.snap_accepted == zstd_verif_monitor.accepted)
/* the worker's outer loop: between two jobs the lock is not held and no dequeued job is left unexecuted */
#define ZSTD_VERIF_POOL_WORKERLOOP(c) \
    __CPROVER_assigns(ZSTD_VERIF_POOL_FRAME(c)) \
    __CPROVER_loop_invariant(zstd_verif_monitor.held == 0 && zstd_verif_monitor.pending_call == 0)
#endif
