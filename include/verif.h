/* verif.h — harness vocabulary shared by every unit in /verif/units.
 *
 * One source, two builds:
 *   - CBMC build (default): inputs are nondeterministic, ASSUME restricts them,
 *     CLAIM is a proof obligation, REACH is a deliberately failing assertion whose
 *     FAILURE proves the point is reachable (vacuity guard; the driver demands FAILURE).
 *   - native replay build (-DVERIF_REPLAY): inputs are read by name from the file named
 *     in $VERIF_REPLAY_INPUTS (lines "name=value"), ASSUME exits 77 when the recorded
 *     counterexample does not satisfy it, CLAIM prints REPLAY-CONFIRMED and exits 1.
 */
#ifndef VERIF_H
#define VERIF_H
#include <stddef.h>
#include <stdint.h>
#include <stdlib.h>

typedef uint8_t  vu8;
typedef uint16_t vu16;
typedef uint32_t vu32;
typedef uint64_t vu64;
typedef int      vint;
typedef size_t   vsz;

#ifndef VERIF_REPLAY
#include "zstd_verif_hooks.h"
struct zstd_verif_ghost_s zstd_verif_ghost;     /* the one definition (every unit includes verif.h exactly once) */

vu8  nondet_vu8(void);
vu16 nondet_vu16(void);
vu32 nondet_vu32(void);
vu64 nondet_vu64(void);
vint nondet_vint(void);
vsz  nondet_vsz(void);

#define ASSUME(c)      __CPROVER_assume(c)
#define CLAIM(c, msg)  __CPROVER_assert((c), msg)
#define REACH(msg)     __CPROVER_assert(0, "REACH:" msg)
/* a claim over ghost state: a proof obligation here, not evaluable in the native replay */
#define GCLAIM(c, msg) __CPROVER_assert((c), msg)
/* scalar input, named so that the driver can pull it out of a counterexample */
#define IN(T, name)    T name = nondet_##T()
/* byte-array input of constant length */
#define IN_BYTES(name, N) vu8 name[N]   /* uninitialised local = nondeterministic in CBMC */
/* exact-size heap object with unconstrained content */
#define FRESH(T, name, nbytes) T* name = (T*)malloc(nbytes); ASSUME(name != NULL)

#else  /* ---------------- native replay ---------------- */

#include <stdio.h>
#include <string.h>
static unsigned long long verif_replay_get(const char* name)
{
    const char* path = getenv("VERIF_REPLAY_INPUTS");
    FILE* f = path ? fopen(path, "r") : NULL;
    char line[512];
    size_t const nlen = strlen(name);
    if (!f) { fprintf(stderr, "replay: no inputs file\n"); exit(78); }
    while (fgets(line, sizeof line, f)) {
        if (!strncmp(line, name, nlen) && line[nlen] == '=') {
            unsigned long long v = strtoull(line + nlen + 1, NULL, 0);
            fclose(f);
            return v;
        }
    }
    fclose(f);
    return 0;   /* input not mentioned in the trace: unconstrained, 0 is as good as any */
}
static void verif_replay_bytes(const char* name, vu8* dst, size_t n)
{
    char key[256]; size_t i;
    for (i = 0; i < n; i++) { snprintf(key, sizeof key, "%s[%zu]", name, i); dst[i] = (vu8)verif_replay_get(key); }
}
#define ASSUME(c)      do { if (!(c)) { fprintf(stderr, "REPLAY-ASSUME-FAILED %s\n", #c); exit(77); } } while (0)
#define CLAIM(c, msg)  do { if (!(c)) { printf("REPLAY-CONFIRMED %s\n", msg); fflush(stdout); exit(1); } } while (0)
#define REACH(msg)     do { } while (0)
#define IN(T, name)    T name = (T)verif_replay_get(#name)
#define IN_BYTES(name, N) vu8 name[N]; verif_replay_bytes(#name, name, N)
#define FRESH(T, name, nbytes) T* name = (T*)calloc((nbytes) ? (nbytes) : 1, 1)
/* heap objects the harness leaves unconstrained are zero-filled in the replay (any content is allowed) */
#define malloc(n) calloc(((n) ? (n) : 1), 1)
#define __CPROVER_assume(c) ASSUME(c)
#define __CPROVER_assert(c, m) CLAIM(c, m)
#define GCLAIM(c, msg) do { } while (0)
/* contract clauses on (re)declarations vanish natively: the real callees are linked instead of their contracts */
#define __CPROVER_requires(...)
#define __CPROVER_ensures(...)
#define __CPROVER_assigns(...)
#include "zstd_verif_ghost.h"
struct zstd_verif_ghost_s zstd_verif_ghost;

#endif
#endif /* VERIF_H */
