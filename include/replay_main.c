/* native replay entry: runs the same harness() the proof ran, on recorded inputs */
#include <stdio.h>
void harness(void);
int main(void) { harness(); printf("REPLAY-NO-VIOLATION\n"); return 0; }
