/* mem_sampled.c — abstract memcpy/memmove/memset for units whose claims do not depend on the
 * CONTENT of large copied ranges (CBMC's precise library models blow up for symbolic lengths).
 *
 *   n <= 32          : byte-precise (covers MEM_read/write, ZSTD_copy8/16, header fields)
 *   n  > 32          : the first 16 bytes are copied exactly (format headers); asserts that [s,s+n) is readable and [d,d+n) writable (so every out-of-bounds
 *                      copy is still an obligation failure), then overwrites ONE nondeterministically
 *                      chosen byte of the destination range with a nondeterministic value.
 * Consequence: any claim about a byte inside a large copied range cannot be proved (the solver may pick
 * that byte), bytes outside the range keep their exact values. Assumption recorded in evidence: no
 * claim relates two different bytes of the same large copied range.
 */
#include <stddef.h>
#include "zstd_verif_hooks.h"
unsigned char nondet_mem_byte(void);
size_t nondet_mem_index(void);

#define PRECISE_MAX 32
#define HEAD_PRECISE 16
#define H16(D, S) D[0]=S[0]; D[1]=S[1]; D[2]=S[2]; D[3]=S[3]; D[4]=S[4]; D[5]=S[5]; D[6]=S[6]; D[7]=S[7]; \
                  D[8]=S[8]; D[9]=S[9]; D[10]=S[10]; D[11]=S[11]; D[12]=S[12]; D[13]=S[13]; D[14]=S[14]; D[15]=S[15];
#define B1(i) if (n > (i)) dd[i] = ss[i];
#define COPY32 B1(0) B1(1) B1(2) B1(3) B1(4) B1(5) B1(6) B1(7) B1(8) B1(9) B1(10) B1(11) B1(12) B1(13) B1(14) B1(15) \
               B1(16) B1(17) B1(18) B1(19) B1(20) B1(21) B1(22) B1(23) B1(24) B1(25) B1(26) B1(27) B1(28) B1(29) B1(30) B1(31)

void* memcpy(void* d, const void* s, size_t n)
{
    unsigned char* dd = (unsigned char*)d;
    const unsigned char* ss = (const unsigned char*)s;
    if (n == 0) return d;
    if (n <= PRECISE_MAX) {
        unsigned char tmp[PRECISE_MAX];
        { unsigned char* dd = tmp; COPY32 }
        { const unsigned char* ss = tmp; COPY32 }
        return d;
    }
    __CPROVER_assert(__CPROVER_r_ok(s, n), "memcpy: source range readable");
    __CPROVER_assert(__CPROVER_w_ok(d, n), "memcpy: destination range writable");
    {   unsigned char head[HEAD_PRECISE]; unsigned i_;
        /* the first HEAD_PRECISE bytes stay exact (format headers), one byte of the rest is havocked */
        H16(head, ss) H16(dd, head)
        (void)i_;
    }
    {   size_t const k = nondet_mem_index();
        __CPROVER_assume(k >= HEAD_PRECISE && k < n);
        dd[k] = nondet_mem_byte();
    }
    return d;
}

void* memmove(void* d, const void* s, size_t n)
{
    unsigned char* dd = (unsigned char*)d;
    const unsigned char* ss = (const unsigned char*)s;
    zstd_verif_ghost.memmove_last_dst = d; zstd_verif_ghost.memmove_last_len = n; zstd_verif_ghost.memmove_calls++;
    if (n == 0) return d;
    if (n <= PRECISE_MAX) {
        unsigned char tmp[PRECISE_MAX];
        { unsigned char* dd = tmp; COPY32 }
        { const unsigned char* ss = tmp; COPY32 }
        return d;
    }
    __CPROVER_assert(__CPROVER_r_ok(s, n), "memmove: source range readable");
    __CPROVER_assert(__CPROVER_w_ok(d, n), "memmove: destination range writable");
    {   unsigned char head[HEAD_PRECISE]; unsigned i_;
        /* the first HEAD_PRECISE bytes stay exact (format headers), one byte of the rest is havocked */
        H16(head, ss) H16(dd, head)
        (void)i_;
    }
    {   size_t const k = nondet_mem_index();
        __CPROVER_assume(k >= HEAD_PRECISE && k < n);
        dd[k] = nondet_mem_byte();
    }
    return d;
}

/* ghost record of the last large memset: units use it to state "the range [p, p+n) was set to c"
 * through memset's own (trusted, libc) contract instead of reading the bytes back */
void* g_memset_last_ptr; int g_memset_last_val; size_t g_memset_last_len; unsigned g_memset_large_calls;

#define S1(i) if (n > (i)) dd[i] = (unsigned char)c;
void* memset(void* d, int c, size_t n)
{
    unsigned char* dd = (unsigned char*)d;
    if (n == 0) return d;
    if (n > PRECISE_MAX) { g_memset_last_ptr = d; g_memset_last_val = c; g_memset_last_len = n; g_memset_large_calls++; }
    if (n <= PRECISE_MAX) {
        S1(0) S1(1) S1(2) S1(3) S1(4) S1(5) S1(6) S1(7) S1(8) S1(9) S1(10) S1(11) S1(12) S1(13) S1(14) S1(15) S1(16) S1(17) S1(18) S1(19) S1(20) S1(21) S1(22) S1(23) S1(24) S1(25) S1(26) S1(27) S1(28) S1(29) S1(30) S1(31)
        return d;
    }
    __CPROVER_assert(__CPROVER_w_ok(d, n), "memset: destination range writable");
    {   size_t const k = nondet_mem_index();
        __CPROVER_assume(k < n);
        dd[k] = nondet_mem_byte();
    }
    return d;
}
