/* mem_ranges.c — range-only memcpy/memmove/memset for units whose claims are about pointers, sizes and
 * ranges, never about the CONTENT of a copied range longer than 8 bytes.
 *   n <= 8 : byte-precise (MEM_read/write of 1..8 bytes); with -DVERIF_MEM_PRECISE64 up to 64 bytes
 *            (small constant-size struct clears/copies stay exact and use constant offsets)
 *   n  > 8 : asserts [s,s+n) readable and [d,d+n) writable (an out-of-bounds copy is an obligation
 *            failure), then overwrites ONE nondeterministically chosen byte of the destination range;
 *            with -DVERIF_MEM_HAVOC_SLICE the WHOLE destination range becomes arbitrary instead
 *            (sound over-approximation of the content).
 * Cheaper than mem_sampled.c when the destination may be a field of a very large struct.
 */
#include <stddef.h>
unsigned char nondet_mem_byte(void);
size_t nondet_mem_index(void);
#define B1(i) if (n > (i)) dd[i] = tmp[i];
#define T1(i) if (n > (i)) tmp[i] = ss[i];
#ifdef VERIF_MEM_PRECISE64
#define PMAX 64
#define R8(M, b) M(b+0) M(b+1) M(b+2) M(b+3) M(b+4) M(b+5) M(b+6) M(b+7)
#define ALL(M) R8(M,0) R8(M,8) R8(M,16) R8(M,24) R8(M,32) R8(M,40) R8(M,48) R8(M,56)
#else
#define PMAX 8
#define ALL(M) M(0) M(1) M(2) M(3) M(4) M(5) M(6) M(7)
#endif

static void* copy_ranges(void* d, const void* s, size_t n)
{
    unsigned char* dd = (unsigned char*)d;
    const unsigned char* ss = (const unsigned char*)s;
    if (n == 0) return d;
    if (n <= PMAX) {
        unsigned char tmp[PMAX];
        ALL(T1)
        ALL(B1)
        return d;
    }
    __CPROVER_assert(__CPROVER_r_ok(s, n), "memcpy/memmove: source range readable");
    __CPROVER_assert(__CPROVER_w_ok(d, n), "memcpy/memmove: destination range writable");
#ifdef VERIF_MEM_HAVOC_SLICE
    __CPROVER_havoc_slice(d, n);                 /* sound over-approximation: the whole destination range becomes arbitrary */
#else
    {   size_t const k = nondet_mem_index();
        __CPROVER_assume(k < n);
        dd[k] = nondet_mem_byte();
    }
#endif
    return d;
}
void* memcpy(void* d, const void* s, size_t n) { return copy_ranges(d, s, n); }
void* memmove(void* d, const void* s, size_t n) { return copy_ranges(d, s, n); }
void* memset(void* d, int c, size_t n)
{
    unsigned char* dd = (unsigned char*)d;
    if (n == 0) return d;
    if (n <= PMAX) {
#define S1(i) if (n > (i)) dd[i] = (unsigned char)c;
        ALL(S1)
        return d;
    }
    __CPROVER_assert(__CPROVER_w_ok(d, n), "memset: destination range writable");
#ifdef VERIF_MEM_HAVOC_SLICE
    __CPROVER_havoc_slice(d, n);                 /* sound over-approximation: the whole destination range becomes arbitrary */
#else
    {   size_t const k = nondet_mem_index();
        __CPROVER_assume(k < n);
        dd[k] = nondet_mem_byte();
    }
#endif
    return d;
}
