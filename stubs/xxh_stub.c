/* xxh_stub.c — XXH64 as an uninterpreted hash (assumed contract): inputs must be readable,
 * the state is havocked, the digest is an arbitrary 64-bit value. Checksum VALUE facts are out of scope. */
#include <stddef.h>
#define XXH_STATIC_LINKING_ONLY
#define XXH_NAMESPACE ZSTD_
#include "xxhash.h"
#include "zstd_verif_hooks.h"
unsigned long long nondet_xxh_u64(void);
/* the hash state is modelled entirely in the ghost (one hash state per harness): ghost.xxh_bytes = bytes fed since the
 * last reset. The real state object is only checked for accessibility, never written (keeps big contexts out of frames). */

XXH_errorcode XXH64_reset(XXH_NOESCAPE XXH64_state_t* statePtr, XXH64_hash_t seed)
{
    (void)seed;
    __CPROVER_assert(__CPROVER_w_ok(statePtr, sizeof(*statePtr)), "XXH64_reset: state writable");
    zstd_verif_ghost.xxh_bytes = 0;
    return XXH_OK;
}
XXH_errorcode XXH64_update(XXH_NOESCAPE XXH64_state_t* statePtr, XXH_NOESCAPE const void* input, size_t length)
{
    __CPROVER_assert(__CPROVER_w_ok(statePtr, sizeof(*statePtr)), "XXH64_update: state writable");
    __CPROVER_assert(length == 0 || __CPROVER_r_ok(input, length), "XXH64_update: input range readable");
    zstd_verif_ghost.xxh_bytes += length;
    return XXH_OK;
}
XXH64_hash_t XXH64_digest(XXH_NOESCAPE const XXH64_state_t* statePtr)
{
    __CPROVER_assert(__CPROVER_r_ok(statePtr, sizeof(*statePtr)), "XXH64_digest: state readable");
    zstd_verif_ghost.xxh_last_digest = nondet_xxh_u64();
    return zstd_verif_ghost.xxh_last_digest;
}
XXH64_hash_t XXH64(XXH_NOESCAPE const void* input, size_t length, XXH64_hash_t seed)
{
    (void)seed;
    __CPROVER_assert(length == 0 || __CPROVER_r_ok(input, length), "XXH64: input range readable");
    return nondet_xxh_u64();
}
