/* F8 demonstration (property C20): a 25-byte "seekable" file whose footer claims 0x20000001 frames is
 * accepted by ZSTD_seekable_initBuff(): 8*0x20000001 wraps to 8 in 32-bit arithmetic, so the size check
 * against the skippable-frame header passes, and 536870913 table entries are then parsed out of stale
 * staging-buffer bytes. Expected: an error. (Needs ~13 GB of virtual memory for the bogus table.)
 * build: cc -I lib -I lib/common -I contrib/seekable_format F8_seektable_wrap_demo.c \
 *        contrib/seekable_format/zstdseek_decompress.c lib/libzstd.a
 * exit 1 = defect present (malformed table accepted), exit 0 = rejected. */
#include <stdio.h>
#include <string.h>
#include "zstd_seekable.h"
#define ZSTD_STATIC_LINKING_ONLY
#include "zstd.h"
static void le32(unsigned char* p, unsigned v) { p[0]=v; p[1]=v>>8; p[2]=v>>16; p[3]=v>>24; }
int main(void)
{
    unsigned char f[25];
    ZSTD_seekable* zs = ZSTD_seekable_create();
    size_t r;
    le32(f, 0x184D2A5E);          /* skippable magic | 0xE */
    le32(f + 4, 17);              /* frame content size: 1 entry (8) + footer (9) */
    le32(f + 8, 100); le32(f + 12, 200);   /* one real entry */
    le32(f + 16, 0x20000001u);    /* Number_Of_Frames: lie */
    f[20] = 0;                    /* descriptor: no checksum */
    le32(f + 21, 0x8F92EAB1);     /* seekable magic */
    r = ZSTD_seekable_initBuff(zs, f, sizeof f);
    if (ZSTD_isError(r)) { printf("rejected: %s\n", ZSTD_getErrorName(r)); return 0; }
    printf("ACCEPTED malformed seek table: numFrames=%u\n", ZSTD_seekable_getNumFrames(zs));
    return 1;
}
