/* F2 demonstration (properties C06/C17): ZSTD_compressSequences() with dstCapacity < 18 ignores the
 * error returned by ZSTD_writeFrameHeader(), adds the error code to the output pointer and lets the
 * block writer write through it. Expected: dstSize_tooSmall. Typically crashes (SIGSEGV) or, under
 * ASan, reports a wild write.
 * build (ASan): clang -fsanitize=address -I lib -I lib/common F2_compressSequences_smallcap_demo.c lib/common/*.c lib/compress/*.c lib/decompress/*.c -DZSTD_DISABLE_ASM
 * exit 0 with "Destination buffer is too small" = correct; ASan report / any other outcome = defect present. */
#include <stdio.h>
#include <string.h>
#include <stdlib.h>
#define ZSTD_STATIC_LINKING_ONLY
#include "zstd.h"
int main(void)
{
    char src[64]; size_t const cap = 10; char* dst = malloc(cap);   /* heap, so that ASan sees the write before dst */
    ZSTD_Sequence seqs[1] = { { 0, 64, 0, 0 } };       /* 64 literals, then block delimiter semantics (no match) */
    ZSTD_CCtx* c = ZSTD_createCCtx();
    size_t r;
    memset(src, 'a', sizeof src);
    ZSTD_CCtx_setParameter(c, ZSTD_c_blockDelimiters, ZSTD_sf_explicitBlockDelimiters);
    r = ZSTD_compressSequences(c, dst, cap, seqs, 1, src, sizeof src);
    if (ZSTD_isError(r)) { printf("clean error: %s\n", ZSTD_getErrorName(r)); return 0; }
    printf("returned %zu for capacity %zu\n", r, cap);
    return 1;
}
