/* F9 demonstration (properties C05/C04): ZSTD_writeSkippableFrame() accepts a payload of
 * 0xFFFFFFF8..0xFFFFFFFF bytes (legal per the format: 32-bit Frame_Size), but the decoder-side
 * inspectors refuse the frame it produced (32-bit overflow guard in readSkippableFrameSize).
 * build: cc -I lib F9_skippable_4g_demo.c lib/libzstd.a ; needs ~8.6 GB RAM.
 * exit 1 = defect present (library refuses its own output), exit 0 = consistent. */
#include <stdio.h>
#include <stdlib.h>
#define ZSTD_STATIC_LINKING_ONLY
#include "zstd.h"
int main(void)
{
    size_t const n = 0xFFFFFFFCu;
    char* src = calloc(n, 1);
    char* dst = malloc(n + 8);
    size_t w, r;
    if (!src || !dst) { puts("no memory"); return 2; }
    w = ZSTD_writeSkippableFrame(dst, n + 8, src, n, 0);
    if (ZSTD_isError(w)) { printf("writer refused: %s\n", ZSTD_getErrorName(w)); return 0; }
    r = ZSTD_findFrameCompressedSize(dst, w);
    printf("writer produced %zu bytes; findFrameCompressedSize -> %s\n", w, ZSTD_isError(r) ? ZSTD_getErrorName(r) : "ok");
    return ZSTD_isError(r) ? 1 : 0;
}
