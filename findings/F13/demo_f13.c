/* F13: a frame that declares a content size, regenerates FEWER bytes and ends with an EMPTY last block is
 * accepted by the buffer-less / streaming decoders (the one-shot decoder refuses it).
 * build: cc -O1 -g -I/repo/lib findings/F13/demo_f13.c /repo/lib/libzstd.a -o /tmp/demo_f13 ; exit 0 = refused everywhere */
#define ZSTD_STATIC_LINKING_ONLY
#include "zstd.h"
#include <stdio.h>
#include <string.h>
int main(void)
{
    /* magic | FHD=0x20 (single segment, 1-byte content size) | FCS=5 | raw block, 2 bytes, not last | 'a','b' | raw block, 0 bytes, LAST */
    static const unsigned char frame[] = { 0x28,0xB5,0x2F,0xFD, 0x20, 0x05, 0x10,0x00,0x00, 'a','b', 0x01,0x00,0x00 };
    unsigned char out[64]; int bad = 0;
    size_t const r1 = ZSTD_decompress(out, sizeof out, frame, sizeof frame);
    printf("one-shot ZSTD_decompress      : %s\n", ZSTD_isError(r1) ? ZSTD_getErrorName(r1) : "ACCEPTED");
    if (!ZSTD_isError(r1)) bad = 1;
    {   ZSTD_DStream* const ds = ZSTD_createDStream();
        ZSTD_inBuffer in = { frame, 0, 0 }; ZSTD_outBuffer o = { out, sizeof out, 0 };
        size_t r = 1; size_t fed = 0;
        while (fed < sizeof frame && !ZSTD_isError(r) && r != 0) {      /* byte by byte: never takes the single-pass shortcut */
            in.size = ++fed;
            r = ZSTD_decompressStream(ds, &o, &in);
        }
        printf("streaming ZSTD_decompressStream: %s (declared 5 bytes, regenerated %zu)\n",
               ZSTD_isError(r) ? ZSTD_getErrorName(r) : (r == 0 ? "reported the frame COMPLETE" : "wants more input"), o.pos);
        if (!ZSTD_isError(r) && r == 0) bad = 1;
        ZSTD_freeDStream(ds);
    }
    {   ZSTD_DCtx* const d = ZSTD_createDCtx(); size_t pos = 0, total = 0, r = 0;
        ZSTD_decompressBegin(d);
        for (;;) {
            size_t const want = ZSTD_nextSrcSizeToDecompress(d);
            if (want == 0) break;
            if (pos + want > sizeof frame) { r = (size_t)-1; break; }
            r = ZSTD_decompressContinue(d, out + total, sizeof out - total, frame + pos, want);
            if (ZSTD_isError(r)) break;
            pos += want; total += r;
        }
        printf("buffer-less ZSTD_decompressContinue: %s (regenerated %zu)\n", ZSTD_isError(r) ? "refused" : "reached END OF FRAME without error", total);
        if (!ZSTD_isError(r)) bad = 1;
        ZSTD_freeDCtx(d);
    }
    printf(bad ? "F13 PRESENT: a frame regenerating 2 bytes while declaring 5 was accepted\n" : "F13 absent: refused by every entry point\n");
    return bad;
}
