/* F10 demonstration (property C13): a caller-provided allocator that fails makes ZSTD_customCalloc()
 * call memset(NULL, 0, size). Reached here through ZSTD_DCtx_refDDict() with ZSTD_d_refMultipleDDicts:
 * the hash-set object is allocated (1st call succeeds), its table allocation fails (2nd call).
 * Expected: memory_allocation error. build: cc -I lib F10_customCalloc_null_demo.c lib/libzstd.a
 * exit 0 = clean error; crash (SIGSEGV) = defect present. */
#include <stdio.h>
#include <stdlib.h>
#define ZSTD_STATIC_LINKING_ONLY
#include "zstd.h"
static int g_calls, g_failAt;
static void* my_alloc(void* o, size_t n) { (void)o; if (++g_calls == g_failAt) return NULL; return malloc(n); }
static void  my_free(void* o, void* p) { (void)o; free(p); }
int main(void)
{
    ZSTD_customMem const cm = { my_alloc, my_free, NULL };
    char const raw[] = "a raw content dictionary, a raw content dictionary";
    ZSTD_DDict* const dd = ZSTD_createDDict(raw, sizeof raw);
    ZSTD_DCtx* d;
    size_t r;
    g_failAt = 3;                     /* 1: DCtx, 2: hash set object, 3: hash set table (calloc path) */
    d = ZSTD_createDCtx_advanced(cm);
    if (!d || !dd) { puts("setup failed"); return 2; }
    ZSTD_DCtx_setParameter(d, ZSTD_d_refMultipleDDicts, ZSTD_rmd_refMultipleDDicts);
    r = ZSTD_DCtx_refDDict(d, dd);
    printf("refDDict -> %s\n", ZSTD_isError(r) ? ZSTD_getErrorName(r) : "ok");
    ZSTD_freeDCtx(d); ZSTD_freeDDict(dd);
    return ZSTD_isError(r) ? 0 : 1;
}
