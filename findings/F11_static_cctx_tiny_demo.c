/* F11 demonstration (property C14): ZSTD_initStaticCCtx() on a block only slightly larger than
 * sizeof(ZSTD_CCtx) returns a non-NULL context whose internal sub-objects could not be reserved.
 * After the context object is carved out, allocStart (workspace end rounded DOWN to 64) lies below
 * tableEnd, ZSTD_cwksp_available_space() underflows to a huge value, the "enough room?" check passes,
 * the three following object reservations fail and their NULL results are stored unchecked.
 * Expected: NULL (block too small). build: cc -I lib F11_static_cctx_tiny_demo.c lib/libzstd.a
 * exit 0 = NULL returned (or the context works); exit 1 / crash = defect present. */
#include <stdio.h>
#include <stdlib.h>
#include <string.h>
#define ZSTD_STATIC_LINKING_ONLY
#include "zstd.h"
int main(void)
{
    size_t const base = ZSTD_estimateCCtxSize(1);
    size_t sz; int bad = 0;
    /* scan sizes just above the smallest accepted one */
    for (sz = 1024; sz < base && !bad; sz += 8) {
        void* const blk = aligned_alloc(64, (sz + 63) & ~(size_t)63);
        ZSTD_CCtx* const c = ZSTD_initStaticCCtx(blk, sz);
        if (c != NULL) {
            char src[100] = "hello hello hello hello hello hello hello hello"; char dst[200];
            size_t r;
            printf("initStaticCCtx accepted %zu bytes; compressing...\n", sz); fflush(stdout);
            r = ZSTD_compressCCtx(c, dst, sizeof dst, src, sizeof src, 1);
            printf("  -> %s\n", ZSTD_isError(r) ? ZSTD_getErrorName(r) : "ok");
            free(blk);
            break;      /* first accepted size examined */
        }
        free(blk);
    }
    return bad;
}
