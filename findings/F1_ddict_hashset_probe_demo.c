/* F1 demonstration (properties C03/C08): with ZSTD_d_refMultipleDDicts, two dictionaries whose IDs hash to
 * the LAST slot (63) of the initial 64-entry table make the second insertion probe ddictPtrTable[64],
 * one element past the allocation ('idx &= mask; idx++'). Needs an ASan build of the library to be seen:
 *   clang -fsanitize=address -DZSTD_DISABLE_ASM -I lib -I lib/common F1_ddict_hashset_probe_demo.c \
 *         lib/common/*.c lib/compress/*.c lib/decompress/*.c lib/dictBuilder/*.c
 * run from the repository root (reads tests/golden-dictionaries/http-dict-missing-symbols).
 * exit 0 = no out-of-bounds access; ASan heap-buffer-overflow = defect present. */
#include <stdio.h>
#include <stdlib.h>
#include <string.h>
#define ZSTD_STATIC_LINKING_ONLY
#include "zstd.h"
unsigned long long ZSTD_XXH64(const void* input, size_t length, unsigned long long seed);
int main(void)
{
    FILE* f = fopen("tests/golden-dictionaries/http-dict-missing-symbols", "rb");
    static unsigned char d1[1 << 20], d2[1 << 20];
    size_t n; unsigned id, found = 0, ids[2];
    ZSTD_DCtx* dctx = ZSTD_createDCtx();
    if (!f) { puts("cannot open dictionary"); return 2; }
    n = fread(d1, 1, sizeof d1, f); fclose(f); memcpy(d2, d1, n);
    for (id = 1; found < 2; id++) if ((ZSTD_XXH64(&id, 4, 0) & 63) == 63) ids[found++] = id;
    memcpy(d1 + 4, &ids[0], 4); memcpy(d2 + 4, &ids[1], 4);        /* little endian host */
    {   ZSTD_DDict* a = ZSTD_createDDict(d1, n); ZSTD_DDict* b = ZSTD_createDDict(d2, n);
        size_t r;
        if (!a || !b) { puts("dictionary not accepted"); return 2; }
        ZSTD_DCtx_setParameter(dctx, ZSTD_d_refMultipleDDicts, ZSTD_rmd_refMultipleDDicts);
        r = ZSTD_DCtx_refDDict(dctx, a); r |= ZSTD_DCtx_refDDict(dctx, b);
        printf("dictIDs %u and %u both hash to slot 63; refDDict -> %s\n", ids[0], ids[1], ZSTD_isError(r) ? ZSTD_getErrorName(r) : "ok");
        ZSTD_freeDCtx(dctx); ZSTD_freeDDict(a); ZSTD_freeDDict(b);
    }
    return 0;
}
