/* F5 demonstration (property C17): with ZSTD_c_validateSequences=1, ZSTD_compressSequences() accepts a first
 * sequence {offset=4, litLength=0, matchLength=8}: at the start of that match the decoder has produced 0 bytes
 * (no dictionary), so offset 4 reaches before the start of history. The validator was given the position of the
 * match END (8), for which offset 4 looks fine. Expected: externalSequences_invalid.
 * Second case: offset 0xFFFFFFFF (+3 wraps to a repcode value inside the validator).
 * build: cc -I lib F5_validate_position_demo.c lib/libzstd.a
 * exit 1 = defect present (invalid sequence accepted), exit 0 = rejected. */
#include <stdio.h>
#include <string.h>
#define ZSTD_STATIC_LINKING_ONLY
#include "zstd.h"
static int try_seq(unsigned off, unsigned ll, unsigned ml)
{
    char src[64]; char dst[256];
    ZSTD_Sequence seqs[2];
    ZSTD_CCtx* c = ZSTD_createCCtx();
    size_t r;
    memset(src, 'a', sizeof src);
    seqs[0].offset = off; seqs[0].litLength = ll; seqs[0].matchLength = ml; seqs[0].rep = 0;
    seqs[1].offset = 0; seqs[1].litLength = (unsigned)sizeof src - ll - ml; seqs[1].matchLength = 0; seqs[1].rep = 0;
    ZSTD_CCtx_setParameter(c, ZSTD_c_blockDelimiters, ZSTD_sf_explicitBlockDelimiters);
    ZSTD_CCtx_setParameter(c, ZSTD_c_validateSequences, 1);
    r = ZSTD_compressSequences(c, dst, sizeof dst, seqs, 2, src, sizeof src);
    ZSTD_freeCCtx(c);
    if (ZSTD_isError(r)) { printf("offset %u at match start %u: rejected (%s)\n", off, ll, ZSTD_getErrorName(r)); return 0; }
    printf("offset %u at match start %u: ACCEPTED (compressed to %zu bytes)\n", off, ll, r);
    return 1;
}
int main(void)
{
    int bad = 0;
    bad |= try_seq(4, 0, 8);
    bad |= try_seq(0xFFFFFFFFu, 8, 8);
    return bad;
}
