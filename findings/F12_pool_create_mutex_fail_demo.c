/* F12 demonstration (property C13): POOL_create_advanced() stores the caller's allocator in the context only
 * AFTER the mutex / condition-variable initialisation. When one of those initialisations fails, POOL_free(ctx)
 * runs with ctx->customMem still zero and releases the context and the queue with libc free() instead of the
 * caller's deallocator (and the caller's free function is never called for them).
 * build: cc -DZSTD_MULTITHREAD -pthread -I lib -I lib/common F12_pool_create_mutex_fail_demo.c \
 *        lib/common/pool.c lib/common/threading.c lib/common/zstd_common.c lib/common/error_private.c lib/common/debug.c
 * exit 0 = every block went back through the caller's deallocator; exit 1 (or abort in free()) = defect present. */
#include <stdio.h>
#include <stdlib.h>
#include <pthread.h>
#define ZSTD_STATIC_LINKING_ONLY
#include "zstd.h"
#include "pool.h"
static int g_live;
/* blocks are handed out 64 bytes inside a malloc block: passing them to libc free() is detectably wrong */
static void* my_alloc(void* o, size_t n) { char* p = malloc(n + 64); (void)o; if (!p) return NULL; g_live++; return p + 64; }
static void  my_free(void* o, void* p) { (void)o; g_live--; free((char*)p - 64); }
/* the resource failure: the queue mutex cannot be initialised */
int pthread_mutex_init(pthread_mutex_t* m, const pthread_mutexattr_t* a) { (void)m; (void)a; return 11; /* EAGAIN */ }
int main(void)
{
    ZSTD_customMem const cm = { my_alloc, my_free, NULL };
    POOL_ctx* const p = POOL_create_advanced(2, 4, cm);
    printf("POOL_create_advanced -> %s, blocks not returned through the caller's deallocator: %d\n", p ? "pool" : "NULL", g_live);
    return g_live != 0;
}
