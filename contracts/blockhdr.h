/* contracts/blockhdr.h — contract of ZSTD_getcBlockSize (lib/decompress/zstd_decompress_block.c).
 * Enforced on the real body by unit c03_getcblocksize, assumed (--replace-call-with-contract) by c06_frame_walk. */
#ifndef VERIF_CONTRACT_BLOCKHDR_H
#define VERIF_CONTRACT_BLOCKHDR_H
size_t ZSTD_getcBlockSize(const void* src, size_t srcSize, blockProperties_t* bpPtr)
__CPROVER_requires(srcSize < ZSTD_blockHeaderSize || __CPROVER_is_fresh(src, ZSTD_blockHeaderSize))   /* only the 3 header bytes are read */
__CPROVER_requires(__CPROVER_is_fresh(bpPtr, sizeof(*bpPtr)))
__CPROVER_assigns(*bpPtr)
__CPROVER_ensures(ZSTD_isError(__CPROVER_return_value)
               || (srcSize >= ZSTD_blockHeaderSize && __CPROVER_return_value < ((size_t)1 << 21)
                   && bpPtr->lastBlock <= 1 && bpPtr->blockType != bt_reserved && bpPtr->origSize < (1u << 21)
                   && (bpPtr->blockType == bt_rle ? __CPROVER_return_value == 1 : __CPROVER_return_value == bpPtr->origSize)))
;
#endif
