/* contracts/seqstore.h — contracts of the sequence-store writers (zstd_compress_internal.h / zstd_compress.c).
 * Included by units AFTER "lib/compress/zstd_compress_internal.h" (types) and BEFORE the TU that defines
 * the functions. The same text is enforced on the real bodies by unit c01_storeseq and assumed
 * (--replace-call-with-contract) by the units that call them. */
#ifndef VERIF_CONTRACT_SEQSTORE_H
#define VERIF_CONTRACT_SEQSTORE_H

/* representation invariant of a seqStore_t whose buffers are the objects seqObj / litObj */
#define SEQSTORE_OK(s) \
    ((s)->sequencesStart != NULL && (s)->litStart != NULL \
  && __CPROVER_same_object((s)->sequences, (s)->sequencesStart) && __CPROVER_same_object((s)->lit, (s)->litStart) \
  && __CPROVER_POINTER_OFFSET((s)->sequencesStart) == 0 && __CPROVER_POINTER_OFFSET((s)->litStart) == 0 \
  && (s)->maxNbSeq <= (1u << 17) && (s)->maxNbLit <= (128u << 10) \
  && __CPROVER_OBJECT_SIZE((s)->sequencesStart) >= (s)->maxNbSeq * sizeof(seqDef) \
  && __CPROVER_OBJECT_SIZE((s)->litStart) >= (s)->maxNbLit + WILDCOPY_OVERLENGTH \
  && (size_t)__CPROVER_POINTER_OFFSET((s)->sequences) <= (s)->maxNbSeq * sizeof(seqDef) \
  && (size_t)__CPROVER_POINTER_OFFSET((s)->sequences) % sizeof(seqDef) == 0 \
  && (size_t)__CPROVER_POINTER_OFFSET((s)->lit) <= (s)->maxNbLit)

static void ZSTD_storeSeq(seqStore_t* seqStorePtr, size_t litLength, const BYTE* literals, const BYTE* litLimit,
                          U32 offBase, size_t matchLength)
/* room for one more sequence and for the literals (zstd's own asserts) */
__CPROVER_requires(SEQSTORE_OK(seqStorePtr))
__CPROVER_requires((size_t)__CPROVER_POINTER_OFFSET(seqStorePtr->sequences) < seqStorePtr->maxNbSeq * sizeof(seqDef))
__CPROVER_requires(litLength <= seqStorePtr->maxNbLit && (size_t)__CPROVER_POINTER_OFFSET(seqStorePtr->lit) + litLength <= seqStorePtr->maxNbLit)
/* the literals lie inside the source: [literals, literals+litLength) within the object, ending at or before litLimit */
__CPROVER_requires(__CPROVER_same_object(literals, litLimit))
__CPROVER_requires(__CPROVER_POINTER_OFFSET(literals) >= 0 && __CPROVER_POINTER_OFFSET(litLimit) >= 0
                && (size_t)__CPROVER_POINTER_OFFSET(litLimit) <= __CPROVER_OBJECT_SIZE(litLimit)
                && (size_t)__CPROVER_POINTER_OFFSET(literals) + litLength <= (size_t)__CPROVER_POINTER_OFFSET(litLimit))
__CPROVER_requires(matchLength >= MINMATCH)
__CPROVER_assigns(seqStorePtr->sequences, seqStorePtr->lit, seqStorePtr->longLengthType, seqStorePtr->longLengthPos,
                  __CPROVER_object_whole(seqStorePtr->sequencesStart), __CPROVER_object_whole(seqStorePtr->litStart))
__CPROVER_ensures(seqStorePtr->sequences == __CPROVER_old(seqStorePtr->sequences) + 1)
__CPROVER_ensures(seqStorePtr->lit == __CPROVER_old(seqStorePtr->lit) + litLength)
__CPROVER_ensures(seqStorePtr->sequences[-1].offBase == offBase
               && seqStorePtr->sequences[-1].litLength == (U16)litLength
               && seqStorePtr->sequences[-1].mlBase == (U16)(matchLength - MINMATCH))
;

static void ZSTD_storeLastLiterals(seqStore_t* seqStorePtr, const BYTE* anchor, size_t lastLLSize)
__CPROVER_requires(SEQSTORE_OK(seqStorePtr))
__CPROVER_requires(lastLLSize <= seqStorePtr->maxNbLit && (size_t)__CPROVER_POINTER_OFFSET(seqStorePtr->lit) + lastLLSize <= seqStorePtr->maxNbLit)
__CPROVER_requires(lastLLSize == 0 || __CPROVER_r_ok(anchor, lastLLSize))
__CPROVER_assigns(seqStorePtr->lit, __CPROVER_object_whole(seqStorePtr->litStart))
__CPROVER_ensures(seqStorePtr->lit == __CPROVER_old(seqStorePtr->lit) + lastLLSize)
;
#endif
