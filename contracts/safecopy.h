/* contracts/safecopy.h — contract of ZSTD_safecopy (lib/decompress/zstd_decompress_block.c), assumed by the
 * execSequence units. `oend_w + WILDCOPY_OVERLENGTH` is the end of the output region the caller owns. */
#ifndef VERIF_CONTRACT_SAFECOPY_H
#define VERIF_CONTRACT_SAFECOPY_H
static void ZSTD_safecopy(BYTE* op, const BYTE* const oend_w, BYTE const* ip, ptrdiff_t length, ZSTD_overlap_e ovtype)
__CPROVER_requires(length >= 0)
__CPROVER_requires(length == 0 || __CPROVER_w_ok(op, (size_t)length))            /* the destination range is inside the output object */
__CPROVER_requires(length == 0 || __CPROVER_r_ok(ip, (size_t)length))            /* the source range is readable (it may overlap the destination from below) */
__CPROVER_requires(ovtype != ZSTD_overlap_src_before_dst || (__CPROVER_same_object(op, ip) && __CPROVER_POINTER_OFFSET(ip) <= __CPROVER_POINTER_OFFSET(op)))
__CPROVER_assigns(__CPROVER_object_whole(op))
;
#endif
